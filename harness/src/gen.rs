//! Seeded generators and the fixed hostile corpus (DESIGN.md §3.5).
use crate::util::*;

/// quarter-hour GMT offset near lon/15, within `slack` hours, clamped to [-12, 12]
pub fn gmt_near(r: &mut Rng, lon: f64, slack: f64) -> f64 {
    for _ in 0..64 {
        let g = match r.int(0, 3) {
            0 => (lon / 15.0).round(),
            1 => (lon / 15.0).round() + r.int(-(slack as i64), slack as i64) as f64,
            2 => ((lon / 15.0 + r.range(-slack, slack)) * 4.0).round() / 4.0,
            _ => lon / 15.0 + r.range(-slack, slack),
        };
        if (-12.0..=12.0).contains(&g) && (g - lon / 15.0).abs() <= slack {
            return g;
        }
    }
    (lon / 15.0).clamp(-12.0, 12.0)
}
pub fn any_gmt(r: &mut Rng) -> f64 {
    match r.int(0, 5) {
        0 => -12.0,
        1 => 12.0,
        2 => r.int(-12, 12) as f64,
        3 => (r.range(-12.0, 12.0) * 4.0).round() / 4.0,
        _ => r.range(-12.0, 12.0),
    }
}
pub fn any_lon(r: &mut Rng) -> f64 {
    match r.int(0, 11) {
        0 => 180.0,
        1 => -180.0,
        2 => 0.0,
        3 => 39.823333,
        4 => -140.176667,
        _ => r.range(-180.0, 180.0),
    }
}
pub fn any_elev(r: &mut Rng) -> f64 {
    match r.int(0, 7) {
        0 => -420.0,
        1 => 8848.0,
        2 | 3 => 0.0,
        _ => r.range(-420.0, 8848.0),
    }
}
/// latitude in [-m, m] with mass on the bounds, 0, the tropics
pub fn lat_within(r: &mut Rng, m: f64) -> f64 {
    match r.int(0, 15) {
        0 => m,
        1 => -m,
        2 => 0.0,
        3 => 23.44_f64.min(m) * r.sign(),
        _ => r.range(-m, m),
    }
}
/// any latitude incl. poles and polar circles
pub fn any_lat(r: &mut Rng) -> f64 {
    match r.int(0, 15) {
        0 => 90.0,
        1 => -90.0,
        2 => 66.56,
        3 => -66.56,
        4 => 0.0,
        5 => r.range(60.0, 90.0) * r.sign(),
        6 => *r.pick(&[88.95, 89.45, 89.93, 89.99, 84.7, 87.0]) * r.sign(),
        _ => r.range(-90.0, 90.0),
    }
}
pub fn any_weather(r: &mut Rng) -> Weather {
    let p = match r.int(0, 5) {
        0 => 100.0,
        1 => 1050.0,
        _ => r.range(100.0, 1050.0),
    };
    let t = match r.int(0, 5) {
        0 => -90.0,
        1 => 57.0,
        _ => r.range(-90.0, 57.0),
    };
    weather(p, t)
}

/// fixed hostile sites with |lat| <= maxlat, gmt within 6 h of lon/15
pub fn corpus_sites(maxlat: f64) -> Vec<Site> {
    let mut v = vec![];
    let lats: [f64; 25] = [
        0.0, 23.44, -23.44, 30.0, -30.0, 40.0, -40.0, 45.0, -45.0, 48.5, 52.0, -52.0, 60.0, -60.0,
        64.0, -64.0, 66.56, -66.56, 70.0, -70.0, 89.5, -89.5, 90.0, -90.0, 21.423333,
    ];
    let lons: [(f64, f64); 10] = [
        (0.0, 0.0),
        (180.0, 12.0),
        (-180.0, -12.0),
        (39.823333, 3.0),
        (-140.176667, -9.0),
        (-77.0, -5.0),
        (172.5, 12.0),
        (-172.5, -12.0),
        (82.5, 5.5),
        (8.0, 6.0),
    ];
    let elevs = [0.0, -420.0, 8848.0, 1000.0];
    let mut i = 0;
    for la in lats {
        if la.abs() > maxlat {
            continue;
        }
        for (lo, g) in lons {
            v.push(Site::new(la, lo, elevs[i % 4], g));
            i += 1;
        }
    }
    v
}

/// random site with |lat| <= maxlat, gmt within `slack` h of lon/15
pub fn rand_site(r: &mut Rng, maxlat: f64, slack: f64) -> Site {
    let lo = any_lon(r);
    Site::new(lat_within(r, maxlat), lo, any_elev(r), gmt_near(r, lo, slack))
}
