#![allow(dead_code)]
//! ipt-monitor — runtime monitors for the properties C01..C20 of islamic_prayer_times.
//!
//! usage: ipt-monitor run <ID> --tier quick|thorough --seed N --shard I --nshards N --out FILE
//!                        [--known FILE] [--announce] [--build NAME]
//!        ipt-monitor replay <ID> <record.json> [--known FILE]
//!        ipt-monitor one <ID> <case-json>          (single guarded execution in its own process)
mod gen;
mod mon;
mod oracle;
mod rec;
mod util;

use rec::{Ctx, Stats, CURRENT, PROGRESS};
use std::sync::atomic::Ordering;
use std::time::{Duration, Instant};

fn arg(args: &[String], name: &str) -> Option<String> {
    args.iter()
        .position(|a| a == name)
        .and_then(|i| args.get(i + 1).cloned())
}

/// process CPU time in seconds (utime+stime of /proc/self/stat, all threads)
fn cpu_s() -> f64 {
    let s = std::fs::read_to_string("/proc/self/stat").unwrap_or_default();
    let after = s.rsplit_once(')').map(|x| x.1).unwrap_or("");
    let f: Vec<&str> = after.split_whitespace().collect();
    // fields after the comm: state(0) ppid(1) ... utime is index 11, stime 12
    let ut: f64 = f.get(11).and_then(|x| x.parse().ok()).unwrap_or(0.0);
    let st: f64 = f.get(12).and_then(|x| x.parse().ok()).unwrap_or(0.0);
    (ut + st) / 100.0
}

/// Watchdog: a single case that burns more than `limit` CPU-seconds without the progress
/// counter moving is reported as a stall (logical criterion: CPU consumed, not wall clock).
fn spawn_watchdog(out: String, limit: f64) {
    std::thread::spawn(move || {
        let mut last = PROGRESS.load(Ordering::Relaxed);
        let mut cpu_at_change = cpu_s();
        loop {
            std::thread::sleep(Duration::from_millis(500));
            let p = PROGRESS.load(Ordering::Relaxed);
            let c = cpu_s();
            if p != last {
                last = p;
                cpu_at_change = c;
                continue;
            }
            if c - cpu_at_change > limit {
                let cur = CURRENT.lock().map(|s| s.clone()).unwrap_or_default();
                let rec = serde_json::json!({
                    "stall": true, "progress_index": p, "cpu_seconds_on_case": c - cpu_at_change,
                    "case": serde_json::from_str::<serde_json::Value>(&cur).unwrap_or(serde_json::Value::Null),
                });
                let _ = std::fs::write(format!("{out}.stall"), rec.to_string());
                eprintln!("STALL {}", rec);
                std::process::exit(3);
            }
        }
    });
}

fn main() {
    let args: Vec<String> = std::env::args().collect();
    if args.len() < 3 {
        eprintln!("usage: ipt-monitor run|replay|one <ID> ...");
        std::process::exit(2);
    }
    // Library panics are caught per case; keep the default hook quiet but remember the location.
    std::panic::set_hook(Box::new(|info| {
        let loc = info
            .location()
            .map(|l| format!("{}:{}", l.file(), l.line()))
            .unwrap_or_default();
        let msg = if let Some(s) = info.payload().downcast_ref::<&str>() {
            s.to_string()
        } else if let Some(s) = info.payload().downcast_ref::<String>() {
            s.clone()
        } else {
            String::new()
        };
        // (try_with: the hook can run while the thread's locals are being destroyed — thread-exit probes)
        let text = format!("{loc}: {msg}");
        if let Ok(mut g) = mon::LAST_PANIC_ANY_THREAD.lock() {
            *g = text.clone();
        }
        let _ = mon::LAST_PANIC.try_with(|p| {
            if let Ok(mut b) = p.try_borrow_mut() {
                *b = text
            }
        });
    }));
    let cmd = args[1].as_str();
    let id = args[2].clone();
    let known = arg(&args, "--known")
        .map(|p| rec::parse_known(&p))
        .unwrap_or_default();
    match cmd {
        "run" => {
            let ctx = Ctx {
                prop: id.clone(),
                thorough: arg(&args, "--tier").as_deref() == Some("thorough"),
                seed: arg(&args, "--seed").and_then(|s| s.parse().ok()).unwrap_or(1),
                shard: arg(&args, "--shard").and_then(|s| s.parse().ok()).unwrap_or(0),
                nshards: arg(&args, "--nshards").and_then(|s| s.parse().ok()).unwrap_or(1),
                announce: args.iter().any(|a| a == "--announce"),
                scale: std::env::var("VERIF_SCALE")
                    .ok()
                    .and_then(|s| s.parse().ok())
                    .unwrap_or(1.0),
                build: arg(&args, "--build").unwrap_or_else(|| "release".into()),
            };
            let out = arg(&args, "--out").unwrap_or_else(|| "/dev/stdout".into());
            let limit: f64 = std::env::var("VERIF_STALL_CPU_S")
                .ok()
                .and_then(|s| s.parse().ok())
                .unwrap_or(20.0);
            // C15 runs many threads and long ranges per case: its budget per case is larger; its own logical
            // deadlock / livelock criteria fire much earlier for calls made by the monitor itself, this one also
            // covers calls made by the fault injection
            if ctx.build != "miri" {
                spawn_watchdog(out.clone(), if id == "C15" { limit * 20.0 } else { limit });
            }
            let t0 = Instant::now();
            let threads: u64 = arg(&args, "--threads").and_then(|s| s.parse().ok()).unwrap_or(1);
            if threads > 1 {
                // several sub-shards as THREADS of one process: calls from different threads overlap in time, so
                // process-wide state in the library (a shared cache, a static) is exercised concurrently
                let mut hs = vec![];
                for k in 0..threads {
                    let mut c2 = ctx.clone();
                    c2.shard = ctx.shard * threads + k;
                    c2.nshards = ctx.nshards * threads;
                    let known2 = known.clone();
                    let id2 = id.clone();
                    let out2 = format!("{out}.t{k}");
                    hs.push(std::thread::spawn(move || {
                        let mut st = Stats::new(&id2, known2);
                        let ok = mon::run(&c2, &mut st);
                        let j = st.to_json(&c2, t0.elapsed().as_secs_f64());
                        std::fs::write(&out2, serde_json::to_string(&j).unwrap()).expect("write out");
                        ok
                    }));
                }
                let ok = hs.into_iter().all(|h| h.join().unwrap_or(false));
                if !ok {
                    std::process::exit(2);
                }
                return;
            }
            let mut st = Stats::new(&id, known);
            if !mon::run(&ctx, &mut st) {
                eprintln!("unknown property {id}");
                std::process::exit(2);
            }
            let j = st.to_json(&ctx, t0.elapsed().as_secs_f64());
            std::fs::write(&out, serde_json::to_string(&j).unwrap()).expect("write out");
        }
        "replay" => {
            let path = args.get(3).expect("record file");
            let text = std::fs::read_to_string(path).expect("read record");
            let rec: serde_json::Value = serde_json::from_str(&text).expect("json");
            let ctx = Ctx {
                prop: id.clone(),
                thorough: false,
                seed: 1,
                shard: 0,
                nshards: 1,
                announce: true,
                scale: 1.0,
                build: "release".into(),
            };
            let mut st = Stats::new(&id, known);
            let case = rec.get("case").cloned().unwrap_or(rec.clone());
            if !mon::replay(&ctx, &id, &case, &mut st) {
                eprintln!("no replay for {id}");
                std::process::exit(2);
            }
            println!("{}", serde_json::to_string_pretty(&st.to_json(&ctx, 0.0)).unwrap());
            if st.violation_count > 0 {
                println!("VIOLATION property={} replay={}", id, path);
                std::process::exit(1);
            }
            println!("replay: no violation reproduced");
        }
        "expect" => {
            let code = mon::c19::expect(&args[2], args.get(3).expect("out file"));
            std::process::exit(code);
        }
        "coldstart" => {
            let threads: usize = args.get(2).and_then(|s| s.parse().ok()).unwrap_or(16);
            let seed: u64 = args.get(3).and_then(|s| s.parse().ok()).unwrap_or(1);
            let kind = args.get(4).cloned().unwrap_or_else(|| "prayer".into());
            let stack_kib: usize = args.get(5).and_then(|s| s.parse().ok()).unwrap_or(0);
            if kind == "prayer" {
                std::process::exit(mon::c07::coldstart(threads, seed));
            }
            std::process::exit(mon::c07::coldstart_other(&kind, threads, seed, stack_kib));
        }
        "hammer" => {
            // hammer <flavour> <threads> <seed> <millis>
            let flavour = args.get(2).cloned().unwrap_or_else(|| "all".into());
            let threads: usize = args.get(3).and_then(|s| s.parse().ok()).unwrap_or(16);
            let seed: u64 = args.get(4).and_then(|s| s.parse().ok()).unwrap_or(1);
            let millis: u64 = args.get(5).and_then(|s| s.parse().ok()).unwrap_or(1500);
            std::process::exit(mon::c07::hammer(&flavour, threads, seed, millis));
        }
        "hijri-newyears" => {
            std::process::exit(mon::c19::hijri_newyears(&args[2]));
        }
        "seek-rounding" => {
            let code = mon::c19::seek_rounding(&args[2], args.get(3).expect("out file"));
            std::process::exit(code);
        }
        "one" => {
            let case: serde_json::Value =
                serde_json::from_str(args.get(3).expect("case json")).expect("json");
            let code = mon::one(&id, &case);
            std::process::exit(code);
        }
        _ => {
            eprintln!("unknown command");
            std::process::exit(2);
        }
    }
}
