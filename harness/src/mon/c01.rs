//! C01 — Dhuhr is the instant of local apparent solar noon (|H| <= 10 s), always reported.
use super::call;
use crate::gen;
use crate::oracle as o;
use crate::rec::{Ctx, Stats};
use crate::util::*;
use chrono::Datelike;
use serde::{Deserialize, Serialize};
use serde_json::json;

pub const TOL_S: f64 = 10.0;

#[derive(Serialize, Deserialize, Clone, Debug)]
pub struct Case {
    pub site: Site,
    pub date: String,
    pub method: usize,
    /// "None" or "default" (the library default policy, nearest good day)
    pub policy: String,
}

fn params(c: &Case) -> Params {
    let mut p = Params::new(METHODS[c.method]);
    p.round_seconds = RoundSeconds::None;
    if c.policy == "None" {
        p.extreme_latitude_method = ExtremeLatitudeMethod::None;
    }
    p
}

pub fn check(_ctx: &Ctx, st: &mut Stats, c: &Case) {
    let p = params(c);
    check_with(st, c, &p);
}

fn check_with(st: &mut Stats, c: &Case, p: &Params) {
    let date = s2d(&c.date);
    let l = c.site.loc();
    let res = match call(st, p, l, date, None) {
        Ok(r) => r,
        Err(pm) => {
            st.violate("dhuhr_not_reported_panic", c, json!({"panic": pm}));
            return;
        }
    };
    let Some(Ok(d)) = res.get(&Prayer::Dhuhr).copied() else {
        st.violate("dhuhr_not_reported", c, json!({"result": res_json(&res)}));
        return;
    };
    let jd = o::instant(date, c.site.gmt.0, secs(&d));
    let h_s = o::hour_angle(jd, c.site.lon.0) * 240.0;
    st.decided += 1;
    let wrap = o::ra_wrap_day(date, c.site.gmt.0);
    if wrap {
        st.count("ra_wrap_days");
    }
    st.margin("hour_angle_s", h_s, TOL_S, || json!({"case": c, "dhuhr": d.time.to_string(), "H_s": h_s}));
    if wrap {
        st.margin("hour_angle_s_on_ra_wrap_days", h_s, TOL_S, || json!({"case": c, "dhuhr": d.time.to_string(), "H_s": h_s}));
    }
    if h_s.abs() > TOL_S {
        st.violate(
            "hour_angle",
            c,
            json!({"dhuhr": d.time.to_string(), "hour_angle_seconds": h_s, "tolerance_s": TOL_S, "ra_wrap_day": wrap}),
        );
    }
}

fn site_for(r: &mut Rng) -> Site {
    let lo = gen::any_lon(r);
    Site::new(gen::any_lat(r), lo, gen::any_elev(r), gen::gmt_near(r, lo, 6.0))
}

pub fn run(ctx: &Ctx, st: &mut Stats) {
    // (a) exhaustive date sweep 1600..2399 per site
    let nsites = ctx.pick(16, 640);
    let nsites = ((nsites as f64 * ctx.scale).ceil() as u64).max(1);
    let corpus = gen::corpus_sites(90.0);
    let mut swept = 0u64;
    for i in 0..nsites {
        if !ctx.mine(i) {
            continue;
        }
        // half the sweep sites come from the fixed hostile corpus (rotating with the seed), half are random
        let site = if i % 2 == 0 {
            corpus[((i / 2 + ctx.seed * 7) as usize) % corpus.len()]
        } else {
            site_for(&mut Rng::new(ctx.seed, 101, i))
        };
        let method = ((i + ctx.seed) % 9) as usize;
        // interval methods at polar latitudes are exercised too: Dhuhr must be reported regardless
        let mut c = Case {
            site,
            date: String::new(),
            method,
            policy: "None".into(),
        };
        let p = params(&c);
        for day in day_lo()..=day_hi() {
            let d = from_ce(day);
            c.date = d2s(d);
            check_with(st, &c, &p);
            if day == day_lo() {
                st.sample(|| json!({"sweep_site": c.site, "method": format!("{:?}", METHODS[method]), "dates": "1600-01-01..2399-12-31 (every day)"}));
            }
            let key = format!("hist.century{}.month{:02}", d.year() / 100, d.month());
            if day % 97 == 0 {
                st.count(&key);
            }
        }
        st.count(&format!("sweep_sites.lat_band.{}", lat_band(site.lat.0)));
        st.count(&format!("sweep_sites.gmt_minus_lon15_band.{:+}", (site.gmt.0 - site.lon.0 / 15.0).round() as i64));
        swept += 1;
        st.nontrivial_by_construction((day_hi() - day_lo() + 1) as u64);
    }
    st.add("sweep_sites", swept);
    // (b) seeded random (site, date) incl. hostile dates, all methods, default policy on a fraction
    let n = ctx.quota(400_000, 20_000_000);
    let mut r = Rng::new(ctx.seed, 102, ctx.shard);
    for k in 0..n {
        let site = site_for(&mut r);
        let date = if r.chance(0.5) { hostile_date(&mut r) } else { rand_date(&mut r) };
        let default_pol = k % 64 == 0 && site.lat.0.abs() <= 70.0;
        let c = Case {
            site,
            date: d2s(date),
            method: r.int(0, 8) as usize,
            policy: if default_pol { "default".into() } else { "None".into() },
        };
        check(ctx, st, &c);
        st.nontrivial_key(hash64(&format!("{:?}{}", c.site, c.date)));
        st.count(&format!("random.lat_band.{}", lat_band(site.lat.0)));
        if k < 2 {
            st.sample(|| json!(c));
        }
    }
    // (e) the edge of the quantifier: GMT offsets EXACTLY six hours from longitude/15
    {
        let mut rb = Rng::new(ctx.seed, 105, ctx.shard);
        let mut idx = 0u64;
        for k in -24..=24 {
            let lon = k as f64 * 7.5;
            for sg in [-6.0, 6.0] {
                let g = lon / 15.0 + sg;
                if !(-12.0..=12.0).contains(&g) {
                    continue;
                }
                idx += 1;
                if !ctx.mine(idx) {
                    continue;
                }
                for _ in 0..6 {
                    let c = Case { site: Site::new(gen::any_lat(&mut rb), lon, gen::any_elev(&mut rb), g), date: d2s(hostile_date(&mut rb)), method: rb.int(0, 8) as usize, policy: "None".into() };
                    check(ctx, st, &c);
                    st.count("gmt_exactly_6h_from_longitude_cases");
                }
            }
        }
    }
    // (d) RA-wrap seeking (see C13): GMT offsets on a fine grid around the one where the Sun's right ascension at
    //     local midnight crosses 360 -> 0, on the March dates where that happens
    let nseek = ctx.quota(160, 8_000);
    let mut rs = Rng::new(ctx.seed, 104, ctx.shard);
    let (mut done, mut tries) = (0u64, 0u64);
    while done < nseek && tries < nseek * 40 {
        tries += 1;
        let date = ymd(rs.int(1600, 2399) as i32, 3, rs.int(18, 23) as u32);
        let lon = rs.range(-178.0, 178.0);
        let nom = lon / 15.0;
        let Some(g0) = o::ra_wrap_gmt(date, (nom - 3.0).max(-12.0), (nom + 3.0).min(12.0)) else { continue };
        done += 1;
        let (la, el, method) = (gen::any_lat(&mut rs), gen::any_elev(&mut rs), rs.int(0, 8) as usize);
        for k in -100..=100 {
            let g = g0 + k as f64 * 0.004;
            if !(-12.0..=12.0).contains(&g) {
                continue;
            }
            for dd in -1..=1 {
                let c = Case { site: Site::new(la, lon, el, g), date: d2s(from_ce(ce(date) + dd)), method, policy: "None".into() };
                check(ctx, st, &c);
            }
        }
        st.count("ra_wrap_seeks(201 GMT offsets around the wrap, 3 dates each)");
    }
    // (c) clock-boundary seeking: bisect the longitude (down to adjacent f64 values) until the reported Dhuhr
    //     crosses a whole hour / whole minute, and judge both neighbours (conversion carries live exactly there)
    let nb = ctx.quota(4_000, 200_000);
    let mut rb = Rng::new(ctx.seed, 103, ctx.shard);
    for k in 0..nb {
        let mut site = site_for(&mut rb);
        site.lon = X(rb.range(-170.0, 170.0));
        site.gmt = X((site.lon.0 / 15.0).round().clamp(-12.0, 12.0));
        let mut c = Case { site, date: d2s(rand_date(&mut rb)), method: rb.int(0, 8) as usize, policy: "None".into() };
        let p = params(&c);
        let date = s2d(&c.date);
        let dh = |st: &mut Stats, lon: f64| -> Option<f64> {
            let mut s2 = site;
            s2.lon = X(lon);
            call(st, &p, s2.loc(), date, None).ok().and_then(|r| r[&Prayer::Dhuhr].ok()).map(|t| secs(&t))
        };
        let Some(d0) = dh(st, site.lon.0) else { continue };
        let unit = if k % 2 == 0 { 3600.0 } else { 60.0 };
        let t = (d0 / unit).floor() * unit; // boundary at or below the current Dhuhr; Dhuhr falls 240 s per degree eastwards
        let lon1 = site.lon.0 + (d0 - t) / 240.0 + 0.02;
        if lon1 > 180.0 || t <= 0.0 {
            continue;
        }
        match dh(st, lon1) {
            Some(d1) if d1 < t => {}
            _ => continue,
        }
        let (a, b) = super::bisect(site.lon.0, lon1, |lon| dh(st, lon).map(|d| d >= t).unwrap_or(true));
        for lon in [a, b] {
            c.site.lon = X(lon);
            check(ctx, st, &c);
        }
        st.count(if unit == 3600.0 { "clock_boundary_seeks.whole_hour" } else { "clock_boundary_seeks.whole_minute" });
        st.nontrivial_key(hash64(&format!("b{:?}{}", c.site, c.date)));
    }
    st.extra.insert("rule".into(), json!("sweep: every date 1600-01-01..2399-12-31 for each sweep site (distinct by construction); random: distinct (site,date) by hash; every decided Dhuhr is non-trivial (oracle evaluated)"));
}
