//! C02 / C03 / C04 — conventional times against the independent ephemeris E.
//!   C02: Shurooq/Maghrib altitude -0.833 +- 0.05, before/after noon, weather moves only them (by seconds)
//!   C03: Fajr/Isha/Imsaak at the configured depression (0.03 under the date's declination, 0.5 true), monotone in the angle
//!   C04: Asr at arccot(k + tan|lat-dec|) +- 0.03, between Dhuhr and Maghrib, Hanafi later than Shafi
use super::call;
use crate::gen;
use crate::oracle as o;
use crate::rec::{Ctx, Stats};
use crate::util::*;
use serde::{Deserialize, Serialize};
use serde_json::json;

#[derive(Serialize, Deserialize, Clone, Debug)]
pub struct Case {
    pub site: Site,
    pub date: String,
    pub p: PSpec,
    /// paired execution with this weather (pressure, temperature)
    pub weather: Option<(X, X)>,
    /// paired execution with Fajr and Isha angles increased by this much (C03 monotonicity)
    pub dangle: Option<X>,
}

const ALT_RISE: f64 = -0.833;
const TOL_RISE: f64 = 0.05;
const TOL_DD: f64 = 0.03;
const TOL_TRUE: f64 = 0.5;
const SEAM_S: f64 = 1800.0;

/// true altitude at a reported clock time; near 00:00 the adjacent civil days are tried as well (§4 seam rule)
fn seam_alt(c: &Case, clock: f64, want: f64) -> (f64, bool) {
    let date = s2d(&c.date);
    let jd = o::instant(date, c.site.gmt.0, clock);
    let mut best = o::true_alt(jd, c.site.lat.0, c.site.lon.0);
    let mut seam = false;
    if near_midnight(clock, SEAM_S) {
        for k in [-1.0, 1.0] {
            let a = o::true_alt(jd + k, c.site.lat.0, c.site.lon.0);
            if (a - want).abs() < (best - want).abs() {
                best = a;
                seam = true;
            }
        }
    }
    (best, seam)
}

pub fn check(_ctx: &Ctx, st: &mut Stats, c: &Case, id: &str) {
    let date = s2d(&c.date);
    let l = c.site.loc();
    let (lat, lon, gmt) = (c.site.lat.0, c.site.lon.0, c.site.gmt.0);
    let p = c.p.build();
    let res = match call(st, &p, l, date, None) {
        Ok(r) => r,
        Err(_) => {
            st.count("panicked_cannot_decide(see C07)");
            return;
        }
    };
    let Some(Ok(dh)) = res.get(&Prayer::Dhuhr).copied() else {
        st.count("no_dhuhr_cannot_decide(see C01)");
        return;
    };
    let dhs = secs(&dh);
    let dd = o::date_dec(date, gmt);
    // under a policy only UNFLAGGED entries are "reported by conventional calculation" (C08): those are judged,
    // flagged ones are counted and skipped; with policy None a flag is itself a violation
    let with_policy = c.p.policy != "None";
    let get = |pr: Prayer| res.get(&pr).and_then(|x| x.ok()).filter(|t| !(with_policy && t.extreme));
    if with_policy {
        st.count("cases_under_a_policy(unflagged entries judged)");
    }
    let ctxj = |extra: serde_json::Value| json!({"case": c, "result": res_json(&res), "obs": extra});
    match id {
        "C02" => {
            let mut any = false;
            for (pr, sign) in [(Prayer::Shurooq, -1.0), (Prayer::Maghrib, 1.0)] {
                if let Some(t) = get(pr) {
                    any = true;
                    let (a, seam) = seam_alt(c, secs(&t), ALT_RISE);
                    if seam {
                        st.count("seam_adjacent_day_used");
                    }
                    st.margin("rise_set_altitude_deg", a - ALT_RISE, TOL_RISE, || ctxj(json!({"prayer": format!("{pr:?}"), "alt": a})));
                    if (a - ALT_RISE).abs() > TOL_RISE {
                        st.violate("rise_set_altitude", c, json!({"prayer": format!("{pr:?}"), "time": t.time.to_string(), "altitude_deg": a, "want": ALT_RISE, "tol": TOL_RISE, "result": res_json(&res)}));
                    }
                    let ofs = off(secs(&t), dhs);
                    if ofs * sign <= 0.0 {
                        st.violate("rise_set_side_of_noon", c, json!({"prayer": format!("{pr:?}"), "offset_from_dhuhr_s": ofs, "result": res_json(&res)}));
                    }
                    if t.extreme {
                        st.violate("flagged_without_policy", c, json!({"prayer": format!("{pr:?}")}));
                    }
                }
            }
            if any {
                st.decided += 1;
            } else {
                st.count("no_rise_set_that_day");
            }
            if let Some((wp, wt)) = c.weather {
                let w = weather(wp.0, wt.0);
                let res2 = match call(st, &p, l, date, Some(w)) {
                    Ok(r) => r,
                    Err(_) => {
                        st.count("panicked_cannot_decide(see C07)");
                        return;
                    }
                };
                st.count("weather_pairs");
                for pr in SEVEN {
                    let (a, b) = (res.get(&pr).copied().flatten_ok(), res2.get(&pr).copied().flatten_ok());
                    match pr {
                        Prayer::Shurooq | Prayer::Maghrib => match (a, b) {
                            (Some(x), Some(y)) if with_policy && (x.extreme || y.extreme) => {
                                st.count("excluded.flagged_entry_under_policy");
                            }
                            (Some(x), Some(y)) => {
                                let dlt = off(secs(&y), secs(&x));
                                st.margin("weather_shift_s", dlt, 60.0, || ctxj(json!({"prayer": format!("{pr:?}"), "with_weather": y.time.to_string()})));
                                if dlt.abs() >= 60.0 {
                                    st.violate("weather_moves_by_seconds_only", c, json!({"prayer": format!("{pr:?}"), "without": x.time.to_string(), "with": y.time.to_string(), "shift_s": dlt}));
                                }
                                let (al, _) = seam_alt(c, secs(&y), ALT_RISE);
                                st.margin("rise_set_altitude_deg(with weather)", al - ALT_RISE, TOL_RISE, || ctxj(json!({"prayer": format!("{pr:?}"), "alt": al, "with_weather": y.time.to_string()})));
                                if (al - ALT_RISE).abs() > TOL_RISE {
                                    st.violate("rise_set_altitude", c, json!({"prayer": format!("{pr:?}"), "time": y.time.to_string(), "altitude_deg": al, "want": ALT_RISE, "tol": TOL_RISE, "with_weather": true}));
                                }
                            }
                            (None, None) => {}
                            _ => st.violate("weather_changes_validity", c, json!({"prayer": format!("{pr:?}"), "without": res_json(&res), "with": res_json(&res2)})),
                        },
                        _ => {
                            let derived = match pr {
                                Prayer::Isha => p.intervals[&Prayer::Isha] != 0.0,
                                Prayer::Fajr | Prayer::Imsaak => p.intervals[&Prayer::Fajr] != 0.0,
                                _ => false,
                            };
                            let flagged = |x: Option<PrayerTime>| x.map(|t| t.extreme).unwrap_or(false);
                            if with_policy && (flagged(a) || flagged(b)) {
                                st.count("excluded.flagged_entry_may_derive_from_shurooq_maghrib");
                            } else if !derived && a != b {
                                st.violate("weather_moves_underived_time", c, json!({"prayer": format!("{pr:?}"), "without": res_json(&res), "with": res_json(&res2)}));
                            }
                        }
                    }
                }
            }
        }
        "C03" => {
            if near_midnight(dhs, SEAM_S) {
                st.count("seam_dhuhr_near_midnight");
                return;
            }
            let fa = p.angles[&Prayer::Fajr];
            let ia = p.angles[&Prayer::Isha];
            let ima = p.angles[&Prayer::Imsaak];
            let mut any = false;
            for (pr, ang, before) in [
                (Prayer::Fajr, fa, true),
                (Prayer::Isha, ia, false),
                (Prayer::Imsaak, fa + ima, true),
            ] {
                if let Some(t) = get(pr) {
                    any = true;
                    let ofs = if before { off_before(secs(&t), dhs) } else { off(secs(&t), dhs) };
                    if (ofs < 0.0) != before {
                        st.violate("twilight_side_of_noon", c, json!({"prayer": format!("{pr:?}"), "offset_from_dhuhr_s": ofs, "result": res_json(&res)}));
                        continue;
                    }
                    let a = o::alt(lat, dd, ofs / 240.0);
                    st.margin("depression_under_date_declination_deg", a + ang, TOL_DD, || ctxj(json!({"prayer": format!("{pr:?}"), "alt_dd": a, "angle": ang})));
                    if (a + ang).abs() > TOL_DD {
                        st.violate("depression_date_declination", c, json!({"prayer": format!("{pr:?}"), "time": t.time.to_string(), "altitude_deg": a, "want": -ang, "tol": TOL_DD, "result": res_json(&res)}));
                    }
                    // true altitude at the instant that many hours before/after that day's Dhuhr
                    let jd = o::instant(date, gmt, dhs + ofs);
                    let mut at = o::true_alt(jd, lat, lon);
                    let unwrapped = dhs + ofs;
                    if !(0.0..86400.0).contains(&unwrapped) {
                        // the clock value wrapped: the instant on the civil date itself is the other candidate
                        st.count("twilight_wrapped_into_adjacent_day");
                        let at2 = o::true_alt(o::instant(date, gmt, secs(&t)), lat, lon);
                        if (at2 + ang).abs() < (at + ang).abs() {
                            at = at2;
                        }
                    }
                    let zoff = (gmt - lon / 15.0).abs();
                    let zoff = if zoff > 12.0 { 24.0 - zoff } else { zoff };
                    st.margin(if zoff <= 6.0 { "depression_true_altitude_deg(zone within 6h)" } else { "depression_true_altitude_deg(zone 6..12h off)" }, at + ang, TOL_TRUE, || ctxj(json!({"prayer": format!("{pr:?}"), "alt_true": at, "angle": ang})));
                    st.margin("depression_true_altitude_deg", at + ang, TOL_TRUE, || ctxj(json!({"prayer": format!("{pr:?}"), "alt_true": at, "angle": ang})));
                    if (at + ang).abs() > TOL_TRUE {
                        st.violate("depression_true_altitude", c, json!({"prayer": format!("{pr:?}"), "time": t.time.to_string(), "altitude_deg": at, "want": -ang, "tol": TOL_TRUE, "result": res_json(&res)}));
                    }
                    if t.extreme {
                        st.violate("flagged_without_policy", c, json!({"prayer": format!("{pr:?}")}));
                    }
                }
            }
            if any {
                st.decided += 1;
            } else {
                st.count("no_twilight_that_day");
            }
            if let Some(da) = c.dangle {
                let mut p2 = p.clone();
                p2.angles.insert(Prayer::Fajr, fa + da.0);
                p2.angles.insert(Prayer::Isha, ia + da.0);
                if let Ok(res2) = call(st, &p2, l, date, None) {
                    st.count("monotonicity_pairs");
                    let Some(Ok(dh2)) = res2.get(&Prayer::Dhuhr).copied() else { return };
                    for (pr, before) in [(Prayer::Fajr, true), (Prayer::Imsaak, true), (Prayer::Isha, false)] {
                        if let (Some(x), Some(Ok(y))) = (get(pr), res2.get(&pr).copied()) {
                            if with_policy && y.extreme {
                                continue;
                            }
                            let (ox, oy) = if before { (off_before(secs(&x), dhs), off_before(secs(&y), secs(&dh2))) } else { (off(secs(&x), dhs), off(secs(&y), secs(&dh2))) };
                            let bad = if before { oy > ox } else { oy < ox };
                            st.count("monotonicity_checks");
                            if bad {
                                st.violate("larger_angle_monotone", c, json!({"prayer": format!("{pr:?}"), "offset_small_angle_s": ox, "offset_large_angle_s": oy, "dangle": da.0}));
                            }
                        }
                    }
                }
            }
        }
        "C04" => {
            if near_midnight(dhs, SEAM_S) {
                st.count("seam_dhuhr_near_midnight");
                return;
            }
            let Some(t) = get(Prayer::Asr) else {
                st.count("no_asr_that_day");
                return;
            };
            st.decided += 1;
            let k = if p.asr_shadow_ratio == AsrShadowRatio::Hanafi { 2.0 } else { 1.0 };
            let want = (1.0 / (k + (lat - dd).abs().to_radians().tan())).atan().to_degrees();
            let ofs = off(secs(&t), dhs);
            let a = o::alt(lat, dd, ofs / 240.0);
            let zenith = (lat - dd).abs() < 1.5;
            if zenith {
                st.count("zenith_passage_cases(|lat-dec|<1.5)");
            }
            if lat.abs() < dd.abs() && lat * dd > 0.0 {
                st.count("site_between_equator_and_subsolar_latitude");
            }
            st.margin("asr_altitude_deg", a - want, TOL_DD, || ctxj(json!({"alt_dd": a, "want": want, "k": k})));
            if (a - want).abs() > TOL_DD {
                st.violate("asr_shadow_altitude", c, json!({"time": t.time.to_string(), "altitude_deg": a, "want": want, "k": k, "lat_minus_dec": lat - dd, "tol": TOL_DD, "result": res_json(&res)}));
            }
            if ofs <= 0.0 {
                st.violate("asr_after_dhuhr", c, json!({"offset_from_dhuhr_s": ofs, "result": res_json(&res)}));
            }
            if let Some(m) = get(Prayer::Maghrib) {
                if ofs >= off(secs(&m), dhs) {
                    st.violate("asr_before_maghrib", c, json!({"asr_offset_s": ofs, "maghrib_offset_s": off(secs(&m), dhs), "result": res_json(&res)}));
                }
            }
            if t.extreme {
                st.violate("flagged_without_policy", c, json!({"prayer": "Asr"}));
            }
            // paired execution with the other school
            let mut p2 = p.clone();
            p2.asr_shadow_ratio = if k == 1.0 { AsrShadowRatio::Hanafi } else { AsrShadowRatio::Shafi };
            if let Ok(res2) = call(st, &p2, l, date, None) {
                if let (Some(Ok(t2)), Some(Ok(dh2))) = (res2.get(&Prayer::Asr).copied().filter(|x| !matches!(x, Ok(t) if with_policy && t.extreme)), res2.get(&Prayer::Dhuhr).copied()) {
                    st.count("school_pairs");
                    let o2 = off(secs(&t2), secs(&dh2));
                    let (shafi, hanafi) = if k == 1.0 { (ofs, o2) } else { (o2, ofs) };
                    st.min_of("smallest_hanafi_minus_shafi_s", hanafi - shafi, || ctxj(json!({"shafi_offset_s": shafi, "hanafi_offset_s": hanafi})));
                    if hanafi <= shafi {
                        st.violate("hanafi_later_than_shafi", c, json!({"shafi_offset_s": shafi, "hanafi_offset_s": hanafi}));
                    }
                }
            }
        }
        _ => unreachable!(),
    }
}

trait FlattenOk {
    fn flatten_ok(self) -> Option<PrayerTime>;
}
impl FlattenOk for Option<Result<PrayerTime, ()>> {
    fn flatten_ok(self) -> Option<PrayerTime> {
        self.and_then(|x| x.ok())
    }
}

fn gen_case(r: &mut Rng, id: &str) -> Case {
    let lon = gen::any_lon(r);
    let mut la = gen::lat_within(r, 60.0);
    let gmt = if r.chance(0.6) { gen::gmt_near(r, lon, 3.0) } else { gen::any_gmt(r) };
    let date = if r.chance(0.3) { hostile_date(r) } else { rand_date(r) };
    let mut p = PSpec::new(*r.pick(&ANGLE_METHODS));
    if id == "C02" {
        p.method = r.int(0, 8) as usize; // all nine methods
    }
    if r.chance(0.5) && id != "C02" {
        let pick_ang = |r: &mut Rng| match r.int(0, 7) {
            0 => 9.0,
            1 => 21.0,
            _ => r.range(9.0, 21.0),
        };
        p.fajr_angle = Some(X(pick_ang(r)));
        p.isha_angle = Some(X(pick_ang(r)));
        p.imsaak_angle = Some(X(match r.int(0, 7) {
            0 => 0.5,
            1 => 3.0,
            // explicitly configured values that coincide with a default (1.5) or with another field's value: "equal to
            // the default" must not be mistaken for "left at the default"
            2 => 1.5,
            3 => 1.0,
            _ => r.range(0.5, 3.0),
        }));
    }
    if r.chance(0.5) {
        p.hanafi = Some(r.chance(0.5));
    }
    if r.chance(0.2) {
        let pol = *r.pick(&POLICIES);
        let pl = if is_nearest_lat(pol) { Some(r.range(-60.0, 60.0)) } else { None };
        p = p.with_policy(pol, pl);
    }
    if id == "C04" && r.chance(0.5) {
        // zenith-passage generator: latitude within +-1.5 deg of the date's declination, or between equator and it
        let dd = o::date_dec(date, gmt);
        la = if r.chance(0.6) { dd + r.range(-1.5, 1.5) } else { dd * r.f() };
        if r.chance(0.1) {
            la = dd;
        }
        la = la.clamp(-60.0, 60.0);
    }
    let weather = if id == "C02" && r.chance(0.7) {
        let w = gen::any_weather(r);
        Some((X(f64::from(w.pressure)), X(f64::from(w.temperature))))
    } else {
        None
    };
    let dangle = if id == "C03" && r.chance(0.4) {
        Some(X(match r.int(0, 3) {
            0 => 1e-3,
            1 => 0.01,
            _ => r.range(0.0, 2.0),
        }))
    } else {
        None
    };
    Case {
        site: Site::new(la, lon, gen::any_elev(r), gmt),
        date: d2s(date),
        p,
        weather,
        dangle,
    }
}

pub fn run(ctx: &Ctx, st: &mut Stats, id: &str) {
    let n = ctx.quota(1_500_000, 120_000_000);
    let stream = match id {
        "C02" => 201,
        "C03" => 301,
        _ => 401,
    };
    let mut r = Rng::new(ctx.seed, stream, ctx.shard);
    if id == "C03" {
        // what "the six angle-based methods" configure: the published ITL table, checked in this process and this
        // process configuration (a default that follows the environment or an earlier call would show here)
        let table: [(usize, f64, f64, f64); 8] = [(1, 20.0, 18.0, 0.0), (2, 19.5, 17.5, 0.0), (3, 18.0, 18.0, 0.0), (4, 18.0, 18.0, 0.0), (5, 15.0, 15.0, 0.0), (6, 18.0, 17.0, 0.0), (7, 18.0, 0.0, 90.0), (8, 19.5, 0.0, 90.0)];
        for (m, fa, ia, ii) in table {
            for round in 0..2 {
                let p = Params::new(METHODS[m]);
                st.evaluations += 1;
                let got = (p.angles.get(&Prayer::Fajr).copied(), p.angles.get(&Prayer::Isha).copied(), p.angles.get(&Prayer::Imsaak).copied(), p.intervals.get(&Prayer::Isha).copied(), p.intervals.get(&Prayer::Fajr).copied(), p.intervals.get(&Prayer::Imsaak).copied());
                let want = (Some(fa), Some(ia), Some(1.5), Some(ii), Some(0.0), Some(0.0));
                let offsets_zero = SEVEN.iter().all(|k| p.minutes.get(k) == Some(&0.0));
                st.count("method_default_tables_checked");
                if got != want || !offsets_zero {
                    st.violate("method_defaults", &json!({"method_defaults": m, "round": round}), json!({"method": format!("{:?}", METHODS[m]), "got(fajr,isha,imsaak angle; isha,fajr,imsaak interval)": format!("{got:?}"), "want": format!("{want:?}"), "minute_offsets_all_zero": offsets_zero}));
                }
            }
        }
    }
    // fixed corpus first (partitioned over shards)
    let corpus = gen::corpus_sites(60.0);
    let mut idx = 0u64;
    for s in &corpus {
        for (y, m, d) in [(1600, 1, 1), (2399, 12, 31), (2024, 2, 29), (2023, 3, 20), (2023, 3, 21), (2023, 6, 21), (2023, 12, 22), (1900, 3, 1)] {
            idx += 1;
            if !ctx.mine(idx) {
                continue;
            }
            let mut c = gen_case(&mut r, id);
            c.site = *s;
            c.date = d2s(ymd(y, m, d));
            check(ctx, st, &c, id);
        }
    }
    // exhaustive date sweep 1600..2399 for a few sites (closes the date quantifier per site)
    let nsweep = ((ctx.pick(16, 320) as f64 * ctx.scale).ceil() as u64).max(1);
    for i in 0..nsweep {
        if !ctx.mine(i) {
            continue;
        }
        let mut rs = Rng::new(ctx.seed, stream + 50, i);
        let mut c = gen_case(&mut rs, id);
        if i % 3 == 0 {
            c.site = corpus[((i / 3 + ctx.seed * 3) as usize) % corpus.len()];
        }
        // natural zone for the sweeps (arbitrary zones are covered by the random part)
        c.site.gmt = X((c.site.lon.0 / 15.0).round().clamp(-12.0, 12.0));
        c.weather = None;
        c.dangle = None;
        if c.p.policy.starts_with("NearestGoodDay") {
            // (a year-long search on each of ~80 000 no-twilight days of a high-latitude sweep site costs minutes;
            // the nearest-good-day policies are exercised on the random inputs and by C08/C09)
            c.p.policy = "None".into();
        }
        st.sample(|| json!({"date_sweep": {"site": c.site, "p": c.p}, "dates": "1600-01-01..2399-12-31 (every day)"}));
        let before = st.decided;
        for day in day_lo()..=day_hi() {
            c.date = d2s(from_ce(day));
            check(ctx, st, &c, id);
        }
        st.nontrivial_by_construction(st.decided - before);
        st.count("date_sweep_sites");
    }
    for k in 0..n {
        let c = gen_case(&mut r, id);
        let before = st.decided;
        check(ctx, st, &c, id);
        if st.decided > before {
            st.nontrivial_key(hash64(&format!("{:?}", c)));
            st.count(&format!("decided.lat_band.{}", lat_band(c.site.lat.0)));
        }
        if k < 3 {
            st.sample(|| json!(c));
        }
    }
    if id == "C04" {
        // zenith scan: where the Sun culminates in the zenith the Asr formula has a kink (|lat - dec|, tan 0); the
        // library's own declination is within ~0.004 deg of the reference one, so a scan of +-0.012 deg in steps of
        // 1e-6 deg around the reference declination passes over lat = dec of the library, whatever it is exactly
        let nd = ctx.quota(32, 1_600);
        let mut rz = Rng::new(ctx.seed, stream + 80, ctx.shard);
        for _ in 0..nd {
            let mut c = gen_case(&mut rz, id);
            c.weather = None;
            c.dangle = None;
            c.p = PSpec::new(*rz.pick(&ANGLE_METHODS));
            c.p.hanafi = Some(rz.chance(0.7));
            let date = s2d(&c.date);
            c.site.gmt = X((c.site.lon.0 / 15.0).round().clamp(-12.0, 12.0));
            let dd = o::date_dec(date, c.site.gmt.0);
            let step = 1e-6;
            for k in -12_000i32..=12_000 {
                c.site.lat = X(dd + k as f64 * step);
                check(ctx, st, &c, id);
            }
            st.count("zenith_scans(24001 latitudes, 1e-6 deg apart, around lat = dec)");
            st.nontrivial_key(hash64(&format!("z{:?}", c)));
        }
    }
    if id == "C03" {
        // existence-boundary seeking: bisect the latitude (down to adjacent f64 values) between a site where the
        // twilight exists and one where it does not; the last site where it exists must still satisfy the property
        let nb = ctx.quota(3_000, 120_000);
        let mut rb = Rng::new(ctx.seed, stream + 70, ctx.shard);
        for _ in 0..nb {
            let mut c = gen_case(&mut rb, id);
            c.weather = None;
            c.dangle = None;
            c.site.gmt = X((c.site.lon.0 / 15.0).round().clamp(-12.0, 12.0));
            let pr = *rb.pick(&[Prayer::Fajr, Prayer::Isha, Prayer::Imsaak]);
            let p = c.p.build();
            let date = s2d(&c.date);
            let site = c.site;
            let exists = |st: &mut Stats, la: f64| -> bool {
                let mut s2 = site;
                s2.lat = X(la);
                call(st, &p, s2.loc(), date, None).map(|r| r[&pr].is_ok()).unwrap_or(false)
            };
            // a latitude of the same sign towards the pole where the twilight is missing (if any within 60 deg)
            let la0 = rb.range(-40.0, 40.0);
            let la1 = if rb.chance(0.5) { 60.0 } else { -60.0 };
            if !exists(st, la0) || exists(st, la1) {
                st.count("boundary_seeks.no_transition_between_endpoints");
                continue;
            }
            let (a, _b) = super::bisect(la0, la1, |la| exists(st, la));
            c.site.lat = X(a);
            check(ctx, st, &c, id);
            st.count(&format!("boundary_seeks.{pr:?}"));
            st.nontrivial_key(hash64(&format!("b{:?}", c)));
        }
    }
    st.extra.insert(
        "rule".into(),
        json!("exhaustive date sweeps 1600..2399 for a few sites + seeded random + fixed corpus; a case is non-trivial when the judged event exists that day (oracle evaluated on at least one reported time); distinct by 64-bit hash of the full input"),
    );
}
