//! C05 — seven entries, chronologically ordered around Dhuhr, nothing flagged without a policy.
use super::call;
use crate::gen;
use crate::rec::{Ctx, Stats};
use crate::util::*;
use serde::{Deserialize, Serialize};
use serde_json::json;

#[derive(Serialize, Deserialize, Clone, Debug)]
pub struct Case {
    pub site: Site,
    pub date: String,
    pub p: PSpec,
}

pub fn check(_ctx: &Ctx, st: &mut Stats, c: &Case) {
    let p = c.p.build();
    let res = match call(st, &p, c.site.loc(), s2d(&c.date), None) {
        Ok(r) => r,
        Err(pm) => {
            st.violate("seven_entries", c, json!({"why": "the call panicked instead of returning seven entries", "panic": pm}));
            return;
        }
    };
    st.decided += 1;
    let keys: Vec<Prayer> = res.keys().copied().collect();
    if keys != SEVEN.to_vec() {
        st.violate("seven_entries", c, json!({"keys": format!("{keys:?}")}));
        return;
    }
    let with_policy = c.p.policy != "None";
    if with_policy {
        st.count("cases_under_a_policy(seven entries; ordering of the unflagged entries)");
    } else if res.values().any(|x| x.map(|t| t.extreme).unwrap_or(false)) {
        st.violate("flagged_without_policy", c, json!({"result": res_json(&res)}));
    }
    let Some(Ok(dh)) = res.get(&Prayer::Dhuhr).copied() else {
        st.violate("dhuhr_missing", c, json!({"result": res_json(&res)}));
        return;
    };
    if with_policy && dh.extreme {
        // Dhuhr itself substituted (all-prayers policies): no conventional anchor to order against
        st.count("dhuhr_flagged_under_policy(order not judged)");
        return;
    }
    let dhs = secs(&dh);
    // offsets from that day's Dhuhr in (-12h, 12h]
    let offs: Vec<Option<f64>> = SEVEN
        .iter()
        .enumerate()
        .map(|(i, pr)| res[pr].ok().filter(|t| !(with_policy && t.extreme)).map(|t| if i < 3 { off_before(secs(&t), dhs) } else { off(secs(&t), dhs) }))
        .collect();
    let present = offs.iter().filter(|x| x.is_some()).count();
    st.count(&format!("entries_present.{present}"));
    if offs[6].map(|o| dhs + o >= 86400.0).unwrap_or(false) {
        st.count("isha_past_midnight");
    }
    let mut prev: Option<(usize, f64)> = None;
    for (i, o) in offs.iter().enumerate() {
        if let Some(o) = o {
            if let Some((pi, po)) = prev {
                let ok = if pi == 0 && i == 1 { po <= *o } else { po < *o };
                let gap = *o - po;
                if !(pi == 0 && i == 1) {
                    st.min_of("smallest_gap_between_successive_entries_s", gap, || json!({"case": c, "result": res_json(&res), "pair": [format!("{:?}", SEVEN[pi]), format!("{:?}", SEVEN[i])], "gap_s": gap}));
                }
                if !ok {
                    st.violate(
                        "order",
                        c,
                        json!({"earlier": format!("{:?}", SEVEN[pi]), "later": format!("{:?}", SEVEN[i]), "offsets_from_dhuhr_s": [po, *o], "result": res_json(&res)}),
                    );
                }
            }
            prev = Some((i, *o));
        }
    }
}

fn gen_case(r: &mut Rng) -> Case {
    let lon = gen::any_lon(r);
    let gmt = if r.chance(0.5) { gen::gmt_near(r, lon, 3.0) } else { gen::any_gmt(r) };
    let mut p = PSpec::new(r.int(1, 8) as usize);
    p.mode = r.int(0, 3) as usize;
    if r.chance(0.4) && p.method <= 6 {
        p.fajr_angle = Some(X(if r.chance(0.2) { 9.0 } else { r.range(9.0, 21.0) }));
        p.isha_angle = Some(X(if r.chance(0.2) { 9.0 } else { r.range(9.0, 21.0) }));
    }
    if r.chance(0.3) {
        p.hanafi = Some(r.chance(0.5));
    }
    if r.chance(0.25) {
        let mut pol = *r.pick(&POLICIES);
        // interval-defined methods under the policies that consume the intervals themselves are outside C08's
        // quantifier (the unused 0-degree Isha angle then shows through); not generated here either
        while p.method >= 7 && (pol.starts_with("HalfOfNight") || pol == "MinutesFromMaghribFajrIshaInvalid") {
            pol = *r.pick(&POLICIES);
        }
        let pl = if is_nearest_lat(pol) { Some(r.range(-60.0, 60.0)) } else { None };
        p = p.with_policy(pol, pl);
    }
    Case {
        site: Site::new(gen::lat_within(r, 60.0), lon, gen::any_elev(r), gmt),
        date: d2s(if r.chance(0.3) { hostile_date(r) } else { rand_date(r) }),
        p,
    }
}

pub fn run(ctx: &Ctx, st: &mut Stats) {
    let n = ctx.quota(3_000_000, 200_000_000);
    let mut r = Rng::new(ctx.seed, 501, ctx.shard);
    for k in 0..n {
        let c = gen_case(&mut r);
        check(ctx, st, &c);
        st.nontrivial_key(hash64(&format!("{:?}", c)));
        if k % 16 == 0 {
            st.count(&format!("hist.mode{}.method{}", c.p.mode, c.p.method));
        }
        if k < 3 {
            st.sample(|| json!(c));
        }
    }
    // counter-wrap probe: two consecutive schedules on this thread, separated by exactly 2^8-1 / 2^16-1 / 2^16
    // single-day evaluations on ANOTHER thread (a wrapping id / generation counter shared by the process)
    if ctx.shard % 4 == 1 || ctx.thorough {
        for nsep in [255u32, 65_535, 65_536] {
            let a = gen_case(&mut r);
            let b = gen_case(&mut r);
            check(ctx, st, &a);
            std::thread::scope(|s| {
                s.spawn(|| {
                    let mut p = Params::new(Method::Mwl);
                    p.extreme_latitude_method = ExtremeLatitudeMethod::None;
                    let l = loc(10.0, 20.0, 0.0, 1.0);
                    for k in 0..nsep {
                        let _ = std::panic::catch_unwind(|| prayer_times_dt(&p, l, from_ce(730_000 + (k % 3000) as i32), None));
                    }
                });
            });
            check(ctx, st, &b);
            st.count("counter_wrap_probes");
        }
    }
    // existence-boundary seeking: bisect the latitude down to adjacent f64 values across the transition where a
    // twilight time appears/disappears; both neighbours must still return a complete, ordered schedule
    let nb = ctx.quota(3_000, 120_000);
    let mut rb = Rng::new(ctx.seed, 502, ctx.shard);
    for _ in 0..nb {
        let mut c = gen_case(&mut rb);
        let pr = *rb.pick(&[Prayer::Fajr, Prayer::Isha, Prayer::Imsaak]);
        let p = c.p.build();
        let date = s2d(&c.date);
        let site = c.site;
        let exists = |st: &mut Stats, la: f64| -> bool {
            let mut s2 = site;
            s2.lat = X(la);
            call(st, &p, s2.loc(), date, None).map(|r| r[&pr].is_ok()).unwrap_or(false)
        };
        let la0 = rb.range(-40.0, 40.0);
        let la1 = if rb.chance(0.5) { 60.0 } else { -60.0 };
        if !exists(st, la0) || exists(st, la1) {
            st.count("boundary_seeks.no_transition_between_endpoints");
            continue;
        }
        let (a, b) = super::bisect(la0, la1, |la| exists(st, la));
        for la in [a, b] {
            c.site.lat = X(la);
            check(ctx, st, &c);
        }
        st.count(&format!("boundary_seeks.{pr:?}"));
        st.nontrivial_key(hash64(&format!("b{:?}", c)));
    }
    st.extra.insert("rule".into(), json!("seeded random (site, date, method|custom angles, rounding mode) with |lat|<=60; every returned map is judged (7 keys, flags, ordering of the entries that exist); distinct by hash of the input"));
}
