//! C06 — with no policy, a time is Invalid iff the solar event does not occur that day.
use super::call;
use crate::gen;
use crate::oracle as o;
use crate::rec::{Ctx, Stats};
use crate::util::*;
use serde::{Deserialize, Serialize};
use serde_json::json;

#[derive(Serialize, Deserialize, Clone, Debug)]
pub struct Case {
    pub site: Site,
    pub date: String,
    pub p: PSpec,
    #[serde(default)]
    pub weather: Option<(X, X)>,
}

const EXEMPT: f64 = 0.05;

pub fn check(_ctx: &Ctx, st: &mut Stats, c: &Case) {
    let p = c.p.build();
    let date = s2d(&c.date);
    let lat = c.site.lat.0;
    let res = match call(st, &p, c.site.loc(), date, c.weather.map(|(a, b)| weather(a.0, b.0))) {
        Ok(r) => r,
        Err(_) => {
            st.count("panicked_cannot_decide(see C07)");
            return;
        }
    };
    if !matches!(res.get(&Prayer::Dhuhr), Some(Ok(_))) {
        st.violate("dhuhr_invalid", c, json!({"result": res_json(&res)}));
    }
    let jm = o::jd_local_midnight(date, c.site.gmt.0);
    let decs = [o::eph(jm).dec, o::eph(jm + 0.5).dec, o::eph(jm + 1.0).dec];
    let k = if p.asr_shadow_ratio == AsrShadowRatio::Hanafi { 2.0 } else { 1.0 };
    let fa = p.angles[&Prayer::Fajr];
    let ia = p.angles[&Prayer::Isha];
    let mut any_invalid = false;
    let mut any_decided = false;
    let ima = p.angles[&Prayer::Imsaak];
    for pr in [Prayer::Imsaak, Prayer::Fajr, Prayer::Shurooq, Prayer::Asr, Prayer::Maghrib, Prayer::Isha] {
        let a_of = |d: f64| -> f64 {
            match pr {
                Prayer::Imsaak => -(fa + ima),
                Prayer::Fajr => -fa,
                Prayer::Isha => -ia,
                Prayer::Asr => (1.0 / (k + (lat - d).abs().to_radians().tan())).atan().to_degrees(),
                _ => -0.8333,
            }
        };
        let mut verdict: Option<bool> = None;
        let mut exempt = false;
        let mut min_margin = f64::MAX;
        for (i, d) in decs.iter().enumerate() {
            let a = a_of(*d);
            let amin = -90.0 + (lat + d).abs();
            let amax = 90.0 - (lat - d).abs();
            min_margin = min_margin.min((a - amin).abs()).min((a - amax).abs());
            if (a - amin).abs() < EXEMPT || (a - amax).abs() < EXEMPT {
                exempt = true;
                break;
            }
            let v = a >= amin && a <= amax;
            if i == 0 {
                verdict = Some(v);
            } else if verdict != Some(v) {
                exempt = true;
                break;
            }
        }
        if exempt {
            st.count("exempt(extreme altitude within 0.05 deg of the defining altitude, or verdict changes within the day)");
            continue;
        }
        let exists = verdict.unwrap();
        let got = res.get(&pr).map(|x| x.is_ok()).unwrap_or(false);
        any_decided = true;
        st.count("decided_prayer_checks");
        if !got {
            any_invalid = true;
            st.count(&format!("observed_invalid.{pr:?}"));
        }
        if exists == got {
            // closest decided case to the exemption band (how near the boundary the monitor actually looked)
            st.min_of("smallest_decided_distance_to_existence_boundary_deg", min_margin, || json!({"case": c, "prayer": format!("{pr:?}"), "distance_deg": min_margin, "exists": exists}));
        } else {
            st.violate(
                if exists { "withheld_existing_event" } else { "fabricated_nonexistent_event" },
                c,
                json!({"prayer": format!("{pr:?}"), "event_exists": exists, "reported_ok": got, "declinations": decs, "defining_altitude": a_of(decs[0]), "sun_min_alt": -90.0 + (lat + decs[0]).abs(), "sun_max_alt": 90.0 - (lat - decs[0]).abs(), "result": res_json(&res)}),
            );
        }
    }
    if any_decided {
        st.decided += 1;
        if any_invalid {
            st.nontrivial_key(hash64(&format!("{:?}", c)));
        }
    }
}

fn gen_case(r: &mut Rng) -> Case {
    let lon = gen::any_lon(r);
    let la = match r.int(0, 7) {
        0 => 89.5 * r.sign(),
        1 | 2 => r.range(60.0, 89.5) * r.sign(),
        3 | 4 => r.range(45.0, 70.0) * r.sign(),
        _ => r.range(-89.5, 89.5),
    };
    let mut p = PSpec::new(*r.pick(&ANGLE_METHODS));
    if r.chance(0.5) {
        p.hanafi = Some(r.chance(0.5));
    }
    if r.chance(0.3) {
        p.fajr_angle = Some(X(r.range(9.0, 21.0)));
        p.isha_angle = Some(X(r.range(9.0, 21.0)));
    }
    // whether an event exists must not depend on the rounding mode
    p.mode = r.int(0, 3) as usize;
    Case {
        site: Site::new(la, lon, gen::any_elev(r), gen::gmt_near(r, lon, 3.0)),
        date: d2s(if r.chance(0.3) { hostile_date(r) } else { rand_date(r) }),
        p,
        weather: if r.chance(0.4) {
            let w = gen::any_weather(r);
            Some((X(f64::from(w.pressure)), X(f64::from(w.temperature))))
        } else {
            None
        },
    }
}

pub fn run(ctx: &Ctx, st: &mut Stats) {
    let n = ctx.quota(2_000_000, 150_000_000);
    let mut r = Rng::new(ctx.seed, 601, ctx.shard);
    for k in 0..n {
        let c = gen_case(&mut r);
        check(ctx, st, &c);
        if k < 3 {
            st.sample(|| json!(c));
        }
        if k % 16 == 0 {
            st.count(&format!("hist.lat_band.{}", lat_band(c.site.lat.0)));
        }
    }
    st.extra.insert("rule".into(), json!("seeded random with half the mass on |lat| 45..89.5, policy None, angle methods; decided = at least one prayer outside the 0.05 deg exemption band under the declination at start/middle/end of the civil day; non-trivial = decided cases in which at least one prayer was observed Invalid; distinct by input hash"));
    st.note("Asr's defining altitude is arccot(k + tan|lat-dec|) evaluated as atan(1/x): in polar night (|lat-dec|>90) this is negative and the library reports an Asr; the oracle uses the same convention (the property does not define Asr when there is no noon shadow).");
}
