//! C06 — with no policy, a time is Invalid iff the solar event does not occur that day.
use super::call;
use crate::gen;
use crate::oracle as o;
use crate::rec::{Ctx, Stats};
use crate::util::*;
use serde::{Deserialize, Serialize};
use serde_json::json;

#[derive(Serialize, Deserialize, Clone, Debug)]
pub struct Case {
    pub site: Site,
    pub date: String,
    pub p: PSpec,
    #[serde(default)]
    pub weather: Option<(X, X)>,
}

const EXEMPT: f64 = 0.05;

pub fn check(_ctx: &Ctx, st: &mut Stats, c: &Case) {
    let p = c.p.build();
    let date = s2d(&c.date);
    let lat = c.site.lat.0;
    let res = match call(st, &p, c.site.loc(), date, c.weather.map(|(a, b)| weather(a.0, b.0))) {
        Ok(r) => r,
        Err(_) => {
            st.count("panicked_cannot_decide(see C07)");
            return;
        }
    };
    if !matches!(res.get(&Prayer::Dhuhr), Some(Ok(_))) {
        st.violate("dhuhr_invalid", c, json!({"result": res_json(&res)}));
    }
    let jm = o::jd_local_midnight(date, c.site.gmt.0);
    let decs = [o::eph(jm).dec, o::eph(jm + 0.5).dec, o::eph(jm + 1.0).dec];
    let k = if p.asr_shadow_ratio == AsrShadowRatio::Hanafi { 2.0 } else { 1.0 };
    let fa = p.angles[&Prayer::Fajr];
    let ia = p.angles[&Prayer::Isha];
    let mut any_invalid = false;
    let mut any_decided = false;
    let ima = p.angles[&Prayer::Imsaak];
    for pr in [Prayer::Imsaak, Prayer::Fajr, Prayer::Shurooq, Prayer::Asr, Prayer::Maghrib, Prayer::Isha] {
        let a_of = |d: f64| -> f64 {
            match pr {
                Prayer::Imsaak => -(fa + ima),
                Prayer::Fajr => -fa,
                Prayer::Isha => -ia,
                Prayer::Asr => (1.0 / (k + (lat - d).abs().to_radians().tan())).atan().to_degrees(),
                _ => -0.8333,
            }
        };
        let mut verdict: Option<bool> = None;
        let mut exempt = false;
        let mut min_margin = f64::MAX;
        for (i, d) in decs.iter().enumerate() {
            let a = a_of(*d);
            let amin = -90.0 + (lat + d).abs();
            let amax = 90.0 - (lat - d).abs();
            min_margin = min_margin.min((a - amin).abs()).min((a - amax).abs());
            if (a - amin).abs() < EXEMPT || (a - amax).abs() < EXEMPT {
                exempt = true;
                break;
            }
            let v = a >= amin && a <= amax;
            if i == 0 {
                verdict = Some(v);
            } else if verdict != Some(v) {
                exempt = true;
                break;
            }
        }
        if exempt {
            st.count("exempt(extreme altitude within 0.05 deg of the defining altitude, or verdict changes within the day)");
            continue;
        }
        let exists = verdict.unwrap();
        let got = res.get(&pr).map(|x| x.is_ok()).unwrap_or(false);
        any_decided = true;
        st.count("decided_prayer_checks");
        if !got {
            any_invalid = true;
            st.count(&format!("observed_invalid.{pr:?}"));
        }
        if exists == got {
            // closest decided case to the exemption band (how near the boundary the monitor actually looked)
            st.min_of("smallest_decided_distance_to_existence_boundary_deg", min_margin, || json!({"case": c, "prayer": format!("{pr:?}"), "distance_deg": min_margin, "exists": exists}));
        } else {
            st.violate(
                if exists { "withheld_existing_event" } else { "fabricated_nonexistent_event" },
                c,
                json!({"prayer": format!("{pr:?}"), "event_exists": exists, "reported_ok": got, "declinations": decs, "defining_altitude": a_of(decs[0]), "sun_min_alt": -90.0 + (lat + decs[0]).abs(), "sun_max_alt": 90.0 - (lat - decs[0]).abs(), "result": res_json(&res)}),
            );
        }
    }
    if any_decided {
        st.decided += 1;
        if any_invalid {
            st.nontrivial_key(hash64(&format!("{:?}", c)));
        }
    }
}

fn gen_case(r: &mut Rng) -> Case {
    let lon = gen::any_lon(r);
    let la = match r.int(0, 7) {
        0 => 89.5 * r.sign(),
        1 | 2 => r.range(60.0, 89.5) * r.sign(),
        3 | 4 => r.range(45.0, 70.0) * r.sign(),
        _ => r.range(-89.5, 89.5),
    };
    let mut p = PSpec::new(*r.pick(&ANGLE_METHODS));
    if r.chance(0.5) {
        p.hanafi = Some(r.chance(0.5));
    }
    if r.chance(0.3) {
        p.fajr_angle = Some(X(r.range(9.0, 21.0)));
        p.isha_angle = Some(X(r.range(9.0, 21.0)));
    }
    // whether an event exists must not depend on the rounding mode
    p.mode = r.int(0, 3) as usize;
    Case {
        site: Site::new(la, lon, gen::any_elev(r), gen::gmt_near(r, lon, 3.0)),
        date: d2s(if r.chance(0.3) { hostile_date(r) } else { rand_date(r) }),
        p,
        weather: if r.chance(0.4) {
            let w = gen::any_weather(r);
            Some((X(f64::from(w.pressure)), X(f64::from(w.temperature))))
        } else {
            None
        },
    }
}

pub fn run(ctx: &Ctx, st: &mut Stats) {
    let n = ctx.quota(2_000_000, 150_000_000);
    let mut r = Rng::new(ctx.seed, 601, ctx.shard);
    for k in 0..n {
        let c = gen_case(&mut r);
        check(ctx, st, &c);
        if k < 3 {
            st.sample(|| json!(c));
        }
        if k % 16 == 0 {
            st.count(&format!("hist.lat_band.{}", lat_band(c.site.lat.0)));
        }
    }
    // existence-boundary seeking: bisect the latitude down to ADJACENT f64 values across "twilight reported / not
    // reported". At the last latitude where it is reported the library's own result says how far from solar midnight
    // (Dhuhr -+ 12 h; or, in polar night, from solar noon) the Sun reaches the defining depression; if that is more
    // than a minute, the Sun goes on to sink below (rise above) the depression by > 1e-5 deg there, and cannot fail to reach it one ulp (1e-14 deg) further on: the
    // "Invalid" at the adjacent latitude withholds an event that occurs. (Independent of the ephemeris' accuracy.)
    let nb = ctx.quota(4_000, 200_000);
    let mut rb = Rng::new(ctx.seed, 602, ctx.shard);
    for _ in 0..nb {
        let mut c = gen_case(&mut rb);
        c.weather = None;
        c.p.mode = 0;
        if rb.chance(0.5) {
            // named methods on their own (the deepest named twilights graze at the edge of the mid-latitudes)
            c.p.fajr_angle = None;
            c.p.isha_angle = None;
        }
        c.site.gmt = X((c.site.lon.0 / 15.0).round().clamp(-12.0, 12.0));
        let pr = *rb.pick(&[Prayer::Fajr, Prayer::Isha, Prayer::Imsaak]);
        let p = c.p.build();
        let date = s2d(&c.date);
        let site = c.site;
        let at = |st: &mut Stats, la: f64| -> Option<Res> {
            let mut s2 = site;
            s2.lat = X(la);
            call(st, &p, s2.loc(), date, None).ok()
        };
        let exists = |st: &mut Stats, la: f64| -> bool { at(st, la).map(|r| r[&pr].is_ok()).unwrap_or(false) };
        let la0 = rb.range(-35.0, 35.0);
        let la1 = if rb.chance(0.5) { 89.0 } else { -89.0 };
        if !exists(st, la0) || exists(st, la1) {
            st.count("boundary_seeks.no_transition_between_endpoints");
            continue;
        }
        let (a, b) = super::bisect(la0, la1, |la| exists(st, la));
        let Some(ra) = at(st, a) else { continue };
        let (Ok(t), Ok(dh)) = (ra[&pr], ra[&Prayer::Dhuhr]) else { continue };
        // distance of the reported time from solar midnight, seconds
        // (or from solar noon: in polar night the Sun never gets UP to the depression and the boundary is at H = 0)
        let od = off(secs(&t), secs(&dh)).abs();
        let gap = od.min(43200.0 - od);
        st.count(&format!("boundary_seeks.{pr:?}"));
        st.margin("existence_boundary.last_reported_twilight_to_solar_midnight_or_noon_s", gap, 60.0, || json!({"site": site, "last_latitude_with_event": a, "first_latitude_without": b, "date": c.date, "prayer": format!("{pr:?}")}));
        st.decided += 1;
        st.nontrivial_key(hash64(&format!("b{:?}{}", c, a)));
        if gap.abs() > 60.0 {
            let mut vc = c.clone();
            vc.site.lat = X(b);
            st.violate("withheld_existing_event", &vc, json!({"prayer": format!("{pr:?}"), "why": "at the adjacent f64 latitude the library itself reports the Sun reaching the defining depression this many seconds away from solar midnight, so it sinks deeper than the depression there and must reach it here as well", "adjacent_latitude_with_event": a, "its_result": res_json(&ra), "seconds_from_solar_midnight_or_noon": gap}));
        }
    }
    st.extra.insert("rule".into(), json!("seeded random with half the mass on |lat| 45..89.5, policy None, angle methods; decided = at least one prayer outside the 0.05 deg exemption band under the declination at start/middle/end of the civil day; non-trivial = decided cases in which at least one prayer was observed Invalid; distinct by input hash"));
    st.note("Asr's defining altitude is arccot(k + tan|lat-dec|) evaluated as atan(1/x): in polar night (|lat-dec|>90) this is negative and the library reports an Asr; the oracle uses the same convention (the property does not define Asr when there is no noon shadow).");
}
