//! C07 — never panics, never hangs (bounded progress), always a 7-entry map.
use super::call;
use crate::gen;
use crate::rec::{Ctx, Stats};
use crate::util::*;
use serde::{Deserialize, Serialize};
use serde_json::json;
use std::time::Instant;

#[derive(Serialize, Deserialize, Clone, Debug)]
pub struct Case {
    pub site: Site,
    pub date: String,
    pub p: PSpec,
    pub weather: Option<(X, X)>,
}

pub fn check(ctx: &Ctx, st: &mut Stats, c: &Case) {
    st.begin_case(ctx, c);
    let p = c.p.build();
    let w = c.weather.map(|(a, b)| weather(a.0, b.0));
    let t0 = Instant::now();
    let r = call(st, &p, c.site.loc(), s2d(&c.date), w);
    let dt = t0.elapsed().as_secs_f64();
    st.margin("slowest_call_wall_s(observation only; the verdict is the CPU-budget watchdog)", dt, 20.0, || json!(c));
    match r {
        Err(pm) => {
            st.violate("panic", c, json!({"panic": pm, "method": format!("{:?}", METHODS[c.p.method]), "policy": c.p.policy}));
        }
        Ok(res) => {
            st.decided += 1;
            let keys: Vec<Prayer> = res.keys().copied().collect();
            if keys != SEVEN.to_vec() {
                st.violate("seven_entries", c, json!({"keys": format!("{keys:?}")}));
            }
            let inv = res.values().any(|x| x.is_err());
            let ext = res.values().any(|x| x.map(|t| t.extreme).unwrap_or(false));
            if inv {
                st.count("results_with_invalid_entry");
            }
            if ext {
                st.count("results_with_extreme_entry");
            }
            if inv || ext {
                st.nontrivial_key(hash64(&format!("{:?}", c)));
            }
            st.count(&format!("policy.{}", c.p.policy));
            // "non-existent times are expressed as Invalid entries": with no policy, a time DEFINED as sunset + interval
            // (sunrise - interval) cannot be reported on a day that has no sunset (sunrise)
            if c.p.policy == "None" {
                let ok = |pr: Prayer| res.get(&pr).map(|x| x.is_ok()).unwrap_or(false);
                let mut orphans = vec![];
                if p.intervals[&Prayer::Isha] != 0.0 && ok(Prayer::Isha) && !ok(Prayer::Maghrib) {
                    orphans.push("Isha (= Maghrib + interval) reported, Maghrib Invalid");
                }
                if p.intervals[&Prayer::Fajr] != 0.0 && ok(Prayer::Fajr) && !ok(Prayer::Shurooq) {
                    orphans.push("Fajr (= Shurooq - interval) reported, Shurooq Invalid");
                }
                if p.intervals[&Prayer::Isha] != 0.0 || p.intervals[&Prayer::Fajr] != 0.0 {
                    st.count("interval_defined_times_checked_against_their_anchor(policy None)");
                }
                if !orphans.is_empty() {
                    st.violate("nonexistent_time_not_invalid", c, json!({"why": orphans, "result": res_json(&res)}));
                }
            }
        }
    }
}

pub fn gen_case(r: &mut Rng) -> Case {
    let lon = gen::any_lon(r);
    let la = gen::any_lat(r);
    let mut p = PSpec::new(r.int(0, 8) as usize);
    p.mode = r.int(0, 3) as usize;
    p.hanafi = Some(r.chance(0.5));
    let pol = *r.pick(&POLICIES);
    let pl = if is_nearest_lat(pol) {
        Some(match r.int(0, 8) {
            8 => la, // substitute latitude bit-equal to the site's own
            0 => 90.0,
            1 => -90.0,
            2 => 0.0,
            3 => 48.5,
            _ => r.range(-90.0, 90.0),
        })
    } else {
        None
    };
    p = p.with_policy(pol, pl);
    let ang = |r: &mut Rng| match r.int(0, 7) {
        0 => 0.0,
        1 => 25.0,
        _ => r.range(0.0, 25.0),
    };
    let itv = |r: &mut Rng| match r.int(0, 7) {
        0 | 1 | 2 => 0.0,
        3 => 180.0,
        _ => r.range(0.0, 180.0),
    };
    if r.chance(0.6) {
        p.fajr_angle = Some(X(ang(r)));
        p.isha_angle = Some(X(ang(r)));
        p.imsaak_angle = Some(X(ang(r)));
    }
    if r.chance(0.6) {
        p.fajr_int = Some(X(itv(r)));
        p.isha_int = Some(X(itv(r)));
        p.imsaak_int = Some(X(itv(r)));
    }
    if r.chance(0.5) {
        let mut m = [X(0.0); 7];
        for x in m.iter_mut() {
            *x = X(match r.int(0, 5) {
                0 => -1500.0,
                1 => 1500.0,
                2 => r.int(-1500, 1500) as f64,
                _ => r.range(-1500.0, 1500.0),
            });
        }
        p.minutes = Some(m);
    }
    let weather = if r.chance(0.5) {
        let w = gen::any_weather(r);
        Some((X(f64::from(w.pressure)), X(f64::from(w.temperature))))
    } else {
        None
    };
    Case {
        site: Site::new(la, lon, gen::any_elev(r), gen::any_gmt(r)),
        date: d2s(if r.chance(0.4) { hostile_date(r) } else { rand_date(r) }),
        p,
        weather,
    }
}

pub fn run(ctx: &Ctx, st: &mut Stats) {
    // fixed product first: 9 methods x 15 policies x hostile latitudes x solstices/equinox, unmodified numeric fields
    let mut idx = 0u64;
    for m in 0..9usize {
        for pol in POLICIES {
            for la in [90.0, -90.0, 66.56, -66.56, 0.0, 70.0, -70.0, 48.0, -52.0, 89.9] {
                for (y, mo, d) in [(2023, 6, 21), (2023, 12, 22), (2023, 3, 20), (1600, 1, 1), (2399, 12, 31), (2024, 2, 29)] {
                    idx += 1;
                    if !ctx.mine(idx) {
                        continue;
                    }
                    let pl = if is_nearest_lat(pol) { Some([48.5, -48.5, 90.0, 0.0][(idx % 4) as usize]) } else { None };
                    let mut p = PSpec::new(m).with_policy(pol, pl);
                    p.mode = (idx % 4) as usize;
                    let c = Case {
                        site: Site::new(la, [20.0, -160.0, 180.0][(idx % 3) as usize], 0.0, [1.0, -11.0, 12.0][(idx % 3) as usize]),
                        date: d2s(ymd(y, mo, d)),
                        p,
                        weather: None,
                    };
                    check(ctx, st, &c);
                }
            }
        }
    }
    st.add("fixed_product_cases(all shards)", idx);
    let n = ctx.quota(120_000, 6_000_000);
    let mut r = Rng::new(ctx.seed, 701, ctx.shard);
    for k in 0..n {
        let c = gen_case(&mut r);
        check(ctx, st, &c);
        if k < 3 {
            st.sample(|| json!(c));
        }
        if k % 8 == 0 {
            st.count(&format!("hist.lat_band.{}", lat_band(c.site.lat.0)));
        }
    }
    st.extra.insert("rule".into(), json!("fixed product (9 methods x 15 policies x hostile latitudes x 6 dates) + seeded hostile random over every numeric field; non-trivial = returned map contains an Invalid or an extreme entry (fallback machinery ran); distinct by input hash; liveness restated as bounded progress: a call that burns >20 CPU-seconds (about 200x the slowest legitimate call) is a stall"));
}

/// Cold start under concurrency: a FRESH process in which `threads` threads, released together by a barrier, make
/// their first library calls at once (high latitude near the solstice under the default policy: the longest code
/// path). Lazy initialisation that is not thread-safe only shows here. Exit code 0 = every call returned a
/// 7-entry map, 10 = a call panicked (message on stdout).
static ARRIVED: std::sync::atomic::AtomicUsize = std::sync::atomic::AtomicUsize::new(0);
/// After the (futex) barrier has made sure every thread exists, a spin rendezvous releases the threads within tens of
/// nanoseconds of each other (a futex wake-up alone staggers them by microseconds); `jitter` spin iterations
/// afterwards vary the alignment from process to process.
fn tight_release(threads: usize, jitter: u32) {
    use std::sync::atomic::Ordering::SeqCst;
    ARRIVED.fetch_add(1, SeqCst);
    while ARRIVED.load(SeqCst) < threads {
        std::hint::spin_loop();
    }
    for _ in 0..jitter {
        std::hint::spin_loop();
    }
}

pub fn coldstart(threads: usize, seed: u64) -> i32 {
    use std::sync::{Arc, Barrier};
    let barrier = Arc::new(Barrier::new(threads));
    let mut hs = vec![];
    let (etx, erx) = std::sync::mpsc::channel::<(Params, Location, chrono::NaiveDate, Result<Res, String>)>();
    for t in 0..threads {
        let b = barrier.clone();
        let etx = etx.clone();
        hs.push(std::thread::spawn(move || {
            let mut r = Rng::new(seed, 777, t as u64);
            let la = if t % 8 == 0 { r.range(60.0, 70.0) * r.sign() } else { r.range(-50.0, 50.0) };
            let lon = r.range(-180.0, 180.0);
            let l = loc(la, lon, 0.0, (lon / 15.0).round().clamp(-12.0, 12.0));
            let y = r.int(1600, 2399) as i32;
            let d = if la > 0.0 { ymd(y, 6, r.int(10, 30) as u32) } else { ymd(y, 12, r.int(10, 31) as u32) };
            let p = Params::new(METHODS[r.int(1, 8) as usize]);
            {
                // thread-exit probe (installed before this thread's first library call)
                let (p2, tx) = (p.clone(), etx.clone());
                let d2 = from_ce(ce(d) + 40);
                super::at_thread_exit(move || {
                    let got = super::guarded_no_tls(|| prayer_times_dt(&p2, l, d2, None));
                    let _ = tx.send((p2, l, d2, got));
                });
            }
            let jitter = if seed % 4 == 0 { r.int(0, 24) } else { 0 }; // three processes in four: no stagger at all
            b.wait();
            tight_release(threads, jitter as u32);
            let mut out = vec![];
            let mut first: Vec<(chrono::NaiveDate, Option<Res>)> = vec![];
            for k in 0..3 {
                let dd = from_ce(ce(d) + k);
                match super::guarded(|| prayer_times_dt(&p, l, dd, None)) {
                    Ok(m) => {
                        if m.len() != 7 {
                            out.push(format!("{} entries", m.len()));
                        }
                        first.push((dd, Some(m)));
                    }
                    Err(pm) => {
                        out.push(format!("lat {la:.3} lon {lon:.3} date {dd}: {pm}"));
                        first.push((dd, None));
                    }
                }
            }
            (out, first, p, l)
        }));
    }
    let mut bad = vec![];
    let mut firsts = vec![];
    for h in hs {
        match h.join() {
            Ok((v, f, p, l)) => {
                bad.extend(v);
                firsts.push((f, p, l));
            }
            Err(_) => bad.push("thread died".into()),
        }
    }
    // calls made while a thread was shutting down (from a thread-local destructor): must have returned, and the same
    // result as a live thread computes
    drop(etx);
    let mut exit_calls = 0;
    for (p, l, d, got) in erx.try_iter() {
        exit_calls += 1;
        match got {
            Ok(m) => {
                if let Ok(live) = super::guarded(|| prayer_times_dt(&p, l, d, None)) {
                    if live != m {
                        bad.push(format!("a call made while its thread was shutting down returned something else than a live thread gets: {l:?} {d}"));
                    }
                }
            }
            Err(pm) => bad.push(format!("a call made from a thread-local destructor (thread shutting down) panicked: {l:?} {d}: {pm}")),
        }
    }
    if exit_calls != threads {
        bad.push(format!("{exit_calls} of {threads} thread-exit probes reported back"));
    }
    // the very first (cold, concurrent) results must equal what the now warm process computes for the same inputs
    for (f, p, l) in firsts {
        for (dd, r) in f {
            if let Some(cold) = r {
                if let Ok(warm) = super::guarded(|| prayer_times_dt(&p, l, dd, None)) {
                    if warm != cold {
                        bad.push(format!("cold-start result differs from the warm one: {l:?} {dd}: cold {} warm {}", res_json(&cold), res_json(&warm)));
                    }
                }
            }
        }
    }
    if bad.is_empty() {
        0
    } else {
        println!("{}", serde_json::json!({"failures": bad}));
        10
    }
}

/// Cold start of the other public entry points: `kind` = "hijri" | "parse" | "qibla". `threads` threads (with
/// `stack_kib` KiB of stack each, 0 = default) are released together and make the process's FIRST calls of that
/// API; results are judged against the reference models. Exit 0 = fine, 10 = wrong result / panic (detail on
/// stdout). A stack overflow or abort kills the process (the orchestrator reports the signal).
pub fn coldstart_other(kind: &str, threads: usize, seed: u64, stack_kib: usize) -> i32 {
    use std::sync::{Arc, Barrier};
    let barrier = Arc::new(Barrier::new(threads));
    let mut hs = vec![];
    let (etx, erx) = std::sync::mpsc::channel::<Option<String>>();
    for t in 0..threads {
        let b = barrier.clone();
        let etx = etx.clone();
        let kind = kind.to_string();
        let mut builder = std::thread::Builder::new();
        if stack_kib > 0 {
            builder = builder.stack_size(stack_kib * 1024);
        }
        hs.push(
            builder
                .spawn(move || {
                    let mut r = Rng::new(seed, 778, t as u64);
                    let mut bad: Vec<String> = vec![];
                    {
                        // thread-exit probe (installed before this thread's first library call): the same API once more
                        // from a thread-local destructor, judged by the same reference model
                        let (kind2, tx) = (kind.clone(), etx.clone());
                        let d2 = from_ce(r.int(ce(ymd(1, 1, 1)) as i64, ce(ymd(9999, 12, 31)) as i64) as i32);
                        let (la2, lo2) = (r.range(-89.0, 89.0), r.range(-180.0, 180.0));
                        super::at_thread_exit(move || {
                            let msg: Option<String> = match kind2.as_str() {
                                "hijri" => match super::guarded_no_tls(|| {
                                    let h = HijriDate::from(d2);
                                    (h.year(), h.pre_epoch(), h.month() as u32, h.day() as u32, h.to_string())
                                }) {
                                    Ok((y, bh, m, dd, _)) => {
                                        let want = crate::oracle::tabular(d2);
                                        if (y, bh, m, dd) != want {
                                            Some(format!("{d2}: got {:?} want {:?}", (y, bh, m, dd), want))
                                        } else {
                                            None
                                        }
                                    }
                                    Err(pm) => Some(format!("{d2}: {pm}")),
                                },
                                "parse" => match super::guarded_no_tls(|| ("45.5".parse::<Latitude>().is_ok(), "181".parse::<Longitude>().is_ok(), "12.5".parse::<Gmt>().is_ok())) {
                                    Ok((true, false, false)) => None,
                                    Ok(x) => Some(format!("parsers at thread exit: {x:?}")),
                                    Err(pm) => Some(format!("parsers at thread exit: {pm}")),
                                },
                                _ => match super::guarded_no_tls(|| Qibla::new(Coordinates::new(lat(la2), Longitude::try_from(lo2).unwrap(), Elevation::try_from(0.0).unwrap())).degrees()) {
                                    Ok(deg) => {
                                        let want = crate::oracle::qibla_bearing(la2, lo2);
                                        if crate::oracle::ang_dist(la2, lo2, crate::oracle::KAABA_LAT, crate::oracle::KAABA_LON) > 0.1 && crate::oracle::norm180(deg - want).abs() > 1e-6 {
                                            Some(format!("qibla at {la2} {lo2}: got {deg} want {want}"))
                                        } else {
                                            None
                                        }
                                    }
                                    Err(pm) => Some(format!("qibla at {la2} {lo2}: {pm}")),
                                },
                            };
                            let _ = tx.send(msg.map(|m| format!("call made from a thread-local destructor (thread shutting down): {m}")));
                        });
                    }
                    match kind.as_str() {
                        "hijri" => {
                            let d = from_ce(r.int(ce(ymd(1, 1, 1)) as i64, ce(ymd(9999, 12, 31)) as i64) as i32);
                            b.wait();
                            tight_release(threads, (seed % 32) as u32 * (t as u32 % 3));
                            match super::guarded(|| {
                                let h = HijriDate::from(d);
                                (h.year(), h.pre_epoch(), h.month() as u32, h.day() as u32, h.to_string())
                            }) {
                                Ok((y, bh, m, dd, _)) => {
                                    let want = crate::oracle::tabular(d);
                                    if (y, bh, m, dd) != want {
                                        bad.push(format!("{d}: got {:?} want {:?}", (y, bh, m, dd), want));
                                    }
                                }
                                Err(pm) => bad.push(format!("{d}: {pm}")),
                            }
                        }
                        "parse" => {
                            let texts = ["1e9", "-181", "8848.5", "45", "nan", "12.5", "-12.01", "", "91"];
                            let t0 = texts[(r.next() % texts.len() as u64) as usize];
                            b.wait();
                            tight_release(threads, (seed % 32) as u32 * (t as u32 % 3));
                            match super::guarded(|| (t0.parse::<Latitude>().is_ok(), t0.parse::<Longitude>().is_ok(), t0.parse::<Elevation>().is_ok(), t0.parse::<Gmt>().is_ok(), serde_json::from_str::<Pressure>(t0).is_ok())) {
                                Ok((la, lo, el, g, _)) => {
                                    let v: Option<f64> = t0.parse::<f64>().ok().filter(|x| x.is_finite());
                                    let want = |lo_: f64, hi_: f64| v.map(|x| x >= lo_ && x <= hi_).unwrap_or(false);
                                    if (la, lo, el, g) != (want(-90.0, 90.0), want(-180.0, 180.0), want(-420.0, 8848.0), want(-12.0, 12.0)) {
                                        bad.push(format!("text {t0:?}: accepted as (lat, lon, elev, gmt) = {:?}", (la, lo, el, g)));
                                    }
                                }
                                Err(pm) => bad.push(format!("text {t0:?}: {pm}")),
                            }
                        }
                        _ => {
                            let (la, lo) = (r.range(-89.0, 89.0), r.range(-180.0, 180.0));
                            b.wait();
                            tight_release(threads, (seed % 32) as u32 * (t as u32 % 3));
                            match super::guarded(|| Qibla::new(Coordinates::new(lat(la), Longitude::try_from(lo).unwrap(), Elevation::try_from(0.0).unwrap())).degrees()) {
                                Ok(deg) => {
                                    let want = crate::oracle::qibla_bearing(la, lo);
                                    if crate::oracle::ang_dist(la, lo, crate::oracle::KAABA_LAT, crate::oracle::KAABA_LON) > 0.1 && crate::oracle::norm180(deg - want).abs() > 1e-6 {
                                        bad.push(format!("qibla at {la} {lo}: got {deg} want {want}"));
                                    }
                                }
                                Err(pm) => bad.push(format!("qibla at {la} {lo}: {pm}")),
                            }
                        }
                    }
                    bad
                })
                .expect("spawn"),
        );
    }
    let mut bad = vec![];
    for h in hs {
        match h.join() {
            Ok(v) => bad.extend(v),
            Err(_) => bad.push("thread died".into()),
        }
    }
    drop(etx);
    let mut exit_calls = 0;
    for m in erx.try_iter() {
        exit_calls += 1;
        bad.extend(m);
    }
    if exit_calls != threads {
        bad.push(format!("{exit_calls} of {threads} thread-exit probes reported back"));
    }
    if bad.is_empty() {
        0
    } else {
        println!("{}", serde_json::json!({"failures": bad}));
        10
    }
}

/// "Few keys, many threads": rounds in which `threads` threads, released together, issue the SAME handful of
/// requests over and over (each thread in its own random order) and compare every result with what one thread
/// computed for that request before the round. A process-wide cache / memo that is updated without proper
/// synchronisation only shows when several callers look up and publish the same and colliding keys at once;
/// independent random inputs per thread never produce that. `flavour` selects the request mix: "ngd" = nearest-good-
/// day fallbacks near the edge of the no-twilight period (short searches), anything else = all policies.
/// Exit 0 = all equal, 10 = a result differed (detail on stdout). Prints counters as JSON on stdout either way.
pub fn hammer(flavour: &str, threads: usize, seed: u64, millis: u64) -> i32 {
    use std::sync::atomic::{AtomicBool, AtomicU64, AtomicUsize, Ordering::SeqCst};
    let t_end = Instant::now() + std::time::Duration::from_millis(millis);
    let mut r = Rng::new(seed, 779, 0);
    let mut failures: Vec<String> = vec![];
    let (mut rounds, mut total_calls) = (0u64, 0u64);
    let ngd = ["NearestGoodDayFajrIshaInvalid", "NearestGoodDayAllPrayersAlways"];
    while Instant::now() < t_end && failures.is_empty() {
        rounds += 1;
        // ---- the round's request set
        let k = r.int(2, 7) as usize;
        let mut reqs: Vec<(Params, Location, chrono::NaiveDate, Option<Weather>)> = vec![];
        let mut tries = 0;
        while reqs.len() < k && tries < 400 {
            tries += 1;
            let want_ngd = flavour == "ngd" || r.chance(0.5);
            let sgn = r.sign();
            let la = if want_ngd { r.range(48.6, 64.0) * sgn } else { r.range(-66.0, 66.0) };
            let lon = r.range(-180.0, 180.0);
            let l = loc(la, lon, if r.chance(0.5) { 0.0 } else { r.range(0.0, 2000.0) }, (lon / 15.0).round().clamp(-12.0, 12.0));
            let y = r.int(1600, 2399) as i32;
            let mut ps = PSpec::new(*r.pick(&ANGLE_METHODS));
            let pol = if want_ngd { *r.pick(&ngd) } else { *r.pick(&POLICIES) };
            ps = ps.with_policy(pol, if is_nearest_lat(pol) { Some(r.range(-48.0, 48.0)) } else { None });
            ps.mode = r.int(0, 3) as usize;
            let p = ps.build();
            let d = if want_ngd {
                // a day near the edge of the no-twilight period: walk from spring towards the solstice until Fajr or Isha goes missing
                let mut p0 = p.clone();
                p0.extreme_latitude_method = ExtremeLatitudeMethod::None;
                let (m0, d0) = if la > 0.0 { (3, 25) } else { (9, 25) };
                let mut dd = ymd(y, m0, d0);
                let mut found = None;
                for _ in 0..100 {
                    let res = prayer_times_dt(&p0, l, dd, None);
                    if res[&Prayer::Fajr].is_err() || res[&Prayer::Isha].is_err() {
                        found = Some(dd);
                        break;
                    }
                    dd = from_ce(ce(dd) + 1);
                }
                match found {
                    Some(x) => from_ce(ce(x) + r.int(0, 12) as i32),
                    None => continue,
                }
            } else {
                rand_date(&mut r)
            };
            let w = if r.chance(0.2) { Some(weather(r.range(100.0, 1050.0), r.range(-90.0, 57.0))) } else { None };
            reqs.push((p, l, d, w));
            if r.chance(0.5) && reqs.len() < k {
                // a sibling request: the same date seen from another zone (tables indexed by the day alone are shared
                // by all offsets of that date)
                let (p, l, d, w) = reqs.last().unwrap().clone();
                let g2 = (f64::from(l.gmt) + *r.pick(&[1.0, -1.0, 0.5, 3.0, -5.5])).clamp(-12.0, 12.0);
                let l2 = loc(f64::from(l.coords.latitude), (f64::from(l.coords.longitude) + 15.0).min(180.0), f64::from(l.coords.elevation), g2);
                reqs.push((p, l2, d, w));
            }
            if want_ngd && r.chance(0.6) && reqs.len() < k {
                // a sibling request: same place, a neighbouring day (different search distance, nearby key)
                let (p, l, d, w) = reqs.last().unwrap().clone();
                reqs.push((p, l, from_ce(ce(d) + r.int(1, 5) as i32), w));
            }
        }
        if reqs.len() < 2 {
            continue;
        }
        // ---- reference: one thread, before the round
        let expected: Vec<Option<Res>> = reqs.iter().map(|(p, l, d, w)| super::guarded(|| prayer_times_dt(p, *l, *d, *w)).ok()).collect();
        // ---- the round
        let arrived = AtomicUsize::new(0);
        let stop = AtomicBool::new(false);
        let calls = AtomicU64::new(0);
        let iters = 400usize;
        let bad: std::sync::Mutex<Vec<String>> = std::sync::Mutex::new(vec![]);
        std::thread::scope(|s| {
            for t in 0..threads {
                let (reqs, expected, arrived, stop, calls, bad) = (&reqs, &expected, &arrived, &stop, &calls, &bad);
                let mut tr = Rng::new(seed, 780 + rounds, t as u64);
                s.spawn(move || {
                    arrived.fetch_add(1, SeqCst);
                    while arrived.load(SeqCst) < threads {
                        std::hint::spin_loop();
                    }
                    for _ in 0..iters {
                        if stop.load(SeqCst) {
                            break;
                        }
                        let i = (tr.next() % reqs.len() as u64) as usize;
                        let (p, l, d, w) = &reqs[i];
                        let got = super::guarded(|| prayer_times_dt(p, *l, *d, *w)).ok();
                        calls.fetch_add(1, SeqCst);
                        if got != expected[i] {
                            stop.store(true, SeqCst);
                            bad.lock().unwrap().push(format!(
                                "request {l:?} {d} policy {:?} mode {:?}: one thread alone computed {} ; with {threads} threads issuing the same {} requests at once a caller got {}",
                                p.extreme_latitude_method,
                                p.round_seconds,
                                expected[i].as_ref().map(|x| res_json(x).to_string()).unwrap_or("panic".into()),
                                reqs.len(),
                                got.as_ref().map(|x| res_json(x).to_string()).unwrap_or("panic".into())
                            ));
                        }
                    }
                });
            }
        });
        total_calls += calls.load(SeqCst);
        failures.extend(bad.into_inner().unwrap());
        // ---- and afterwards, one thread again
        for (i, (p, l, d, w)) in reqs.iter().enumerate() {
            let again = super::guarded(|| prayer_times_dt(p, *l, *d, *w)).ok();
            if again != expected[i] {
                failures.push(format!("request {l:?} {d}: result after the concurrent round differs from the result before it"));
            }
        }
    }
    println!("{}", serde_json::json!({"rounds": rounds, "calls": total_calls, "threads": threads, "failures": failures}));
    if failures.is_empty() {
        0
    } else {
        10
    }
}
