//! C08 — fallback policies change only what they name and flag exactly what they replace.
use super::call;
use crate::gen;
use crate::rec::{Ctx, Stats};
use crate::util::*;
use serde::{Deserialize, Serialize};
use serde_json::json;

#[derive(Serialize, Deserialize, Clone, Debug)]
pub struct Case {
    pub site: Site,
    pub date: String,
    /// method 1..=8 and the policy under test (mode None)
    pub p: PSpec,
}

pub fn fajr_isha_only(pol: &str) -> bool {
    pol != "NearestLatitudeAllPrayersAlways" && pol != "NearestGoodDayAllPrayersAlways"
}
pub fn invalid_only(pol: &str) -> bool {
    pol.ends_with("Invalid")
}
pub fn half_of_night(pol: &str) -> bool {
    pol.starts_with("HalfOfNight")
}

pub fn check(_ctx: &Ctx, st: &mut Stats, c: &Case) {
    let pol = c.p.policy.as_str();
    let interval_method = c.p.method >= 7;
    if interval_method && (half_of_night(pol) || pol == "MinutesFromMaghribFajrIshaInvalid") {
        st.count("outside_quantifier(interval method x interval-consuming policy)");
        return;
    }
    let p = c.p.build();
    let mut p0 = p.clone();
    p0.extreme_latitude_method = ExtremeLatitudeMethod::None;
    let date = s2d(&c.date);
    let l = c.site.loc();
    let base = match call(st, &p0, l, date, None) {
        Ok(r) => r,
        Err(_) => {
            st.count("panicked_cannot_decide(see C07)");
            return;
        }
    };
    let res = match call(st, &p, l, date, None) {
        Ok(r) => r,
        Err(_) => {
            st.count("panicked_cannot_decide(see C07)");
            return;
        }
    };
    st.decided += 1;
    let both = || json!({"conventional(None policy)": res_json(&base), "under_policy": res_json(&res)});
    let all_seven = SEVEN.iter().all(|pr| matches!(base.get(pr), Some(Ok(_))));
    let mut policy_acted = false;
    // (a) Fajr/Isha-only policies never touch the four
    if fajr_isha_only(pol) {
        for pr in [Prayer::Shurooq, Prayer::Dhuhr, Prayer::Asr, Prayer::Maghrib] {
            st.count("checks.a_untouched");
            let same = match (base[&pr], res[&pr]) {
                (Ok(x), Ok(y)) => x.time == y.time && !y.extreme,
                (Err(_), Err(_)) => true,
                _ => false,
            };
            if !same {
                st.violate("fajr_isha_policy_touches_other_prayer", c, json!({"prayer": format!("{pr:?}"), "results": both()}));
            }
        }
    }
    // (b) "only if invalid": valid Fajr/Isha returned unchanged and unflagged; identity when everything exists
    if invalid_only(pol) {
        for pr in [Prayer::Fajr, Prayer::Isha] {
            if let Ok(b) = base[&pr] {
                st.count("checks.b_valid_kept");
                if res[&pr] != Ok(b) {
                    let only_flag = matches!(res[&pr], Ok(x) if x.time == b.time);
                    st.violate(
                        "invalid_policy_keeps_valid",
                        c,
                        json!({"prayer": format!("{pr:?}"), "only_flag_differs": only_flag, "interval_defined": (pr == Prayer::Isha && interval_method), "results": both()}),
                    );
                }
            }
        }
    }
    if (invalid_only(pol) || pol == "AngleBased") && all_seven {
        st.count("checks.b_identity_on_complete_days");
        if res != base {
            let diff: Vec<String> = SEVEN.iter().filter(|pr| res[pr] != base[pr]).map(|pr| format!("{pr:?}")).collect();
            let only_flag = SEVEN.iter().all(|pr| match (base[pr], res[pr]) {
                (Ok(x), Ok(y)) => x.time == y.time,
                _ => false,
            });
            st.violate(
                "identity_on_complete_days",
                c,
                json!({"differing": diff.join("+"), "only_flag_differs": only_flag, "interval_method": interval_method, "results": both()}),
            );
        }
    }
    // (c) unflagged == conventional; replaced/new => flagged
    if !half_of_night(pol) {
        for pr in SEVEN {
            st.count("checks.c_flag");
            match (base[&pr], res[&pr]) {
                (Ok(b), Ok(x)) => {
                    if x.extreme || x.time != b.time {
                        policy_acted = true;
                    }
                    if !x.extreme && x.time != b.time {
                        st.violate("unflagged_differs_from_conventional", c, json!({"prayer": format!("{pr:?}"), "results": both()}));
                    }
                }
                (Err(_), Ok(x)) => {
                    policy_acted = true;
                    if !x.extreme {
                        st.violate("replaced_time_not_flagged", c, json!({"prayer": format!("{pr:?}"), "results": both()}));
                    }
                }
                (Ok(_), Err(_)) => {
                    policy_acted = true;
                    st.count("observed.valid_time_became_invalid_under_always_policy(not asserted)");
                }
                _ => {}
            }
        }
    } else if res != base {
        policy_acted = true;
    }
    if policy_acted {
        st.count(&format!("policy_acted.{pol}"));
        st.nontrivial_key(hash64(&format!("{:?}", c)));
    }
}

pub fn gen_site(r: &mut Rng) -> Site {
    let lon = gen::any_lon(r);
    let la = match r.int(0, 8) {
        0 => 70.0 * r.sign(),
        1 | 2 | 3 => r.range(45.0, 70.0) * r.sign(),
        _ => r.range(-70.0, 70.0),
    };
    Site::new(la, lon, gen::any_elev(r), gen::gmt_near(r, lon, 1.0))
}

pub fn run(ctx: &Ctx, st: &mut Stats) {
    st.max_samples = 14;
    let n = ctx.quota(60_000, 4_000_000);
    let mut r = Rng::new(ctx.seed, 801, ctx.shard);
    for k in 0..n {
        let site = gen_site(&mut r);
        let date = d2s(if r.chance(0.3) { hostile_date(&mut r) } else { rand_date(&mut r) });
        let method = r.int(1, 8) as usize;
        for pol in POLICIES.iter().skip(1) {
            let pl = if is_nearest_lat(pol) {
                Some(match r.int(0, 9) {
                    0 | 1 => 48.5,
                    // substitute latitude a hair away from the site's own: the replacement is then within a second of
                    // the conventional value — it must still be flagged, and an unflagged value must still be the conventional one
                    2 => (site.lat.0 + r.range(-0.02, 0.02)).clamp(-60.0, 60.0),
                    3 => (site.lat.0 + r.range(-0.002, 0.002)).clamp(-60.0, 60.0),
                    _ => r.range(-60.0, 60.0),
                })
            } else {
                None
            };
            let c = Case {
                site,
                date: date.clone(),
                p: PSpec::new(method).with_policy(pol, pl),
            };
            check(ctx, st, &c);
            if k == 0 {
                st.sample(|| json!(c));
            }
        }
        if k % 8 == 0 {
            st.count(&format!("hist.lat_band.{}", lat_band(site.lat.0)));
        }
    }
    // clock-boundary seeking: longitudes (adjacent f64 values, and a few floats around them) at which the conventional
    // Shurooq / Maghrib / Dhuhr / Asr sits within an ulp of a displayed-second (mode None) or rounding (other modes)
    // boundary; a Fajr/Isha-only policy must reproduce those entries exactly there as well
    let nb = ctx.quota(600, 40_000);
    let mut rb = Rng::new(ctx.seed, 802, ctx.shard);
    for _ in 0..nb {
        let mut site = gen_site(&mut rb);
        if rb.chance(0.5) {
            // long summer days at high latitude (sunrise many hours before noon)
            site.lat = X(rb.range(50.0, 66.0) * rb.sign());
        }
        site.lon = X(rb.range(-170.0, 170.0));
        site.gmt = X((site.lon.0 / 15.0).round().clamp(-12.0, 12.0));
        let date = if rb.chance(0.5) {
            let y = rb.int(1600, 2399) as i32;
            if site.lat.0 > 0.0 { ymd(y, rb.int(5, 7) as u32, rb.int(1, 28) as u32) } else { ymd(y, *rb.pick(&[11, 12, 1]), rb.int(1, 28) as u32) }
        } else {
            rand_date(&mut rb)
        };
        let method = rb.int(1, 8) as usize;
        let mode = rb.int(0, 3) as usize;
        let mut ps0 = PSpec::new(method);
        ps0.mode = mode;
        let p0 = ps0.build();
        let pr = *rb.pick(&[Prayer::Shurooq, Prayer::Shurooq, Prayer::Maghrib, Prayer::Maghrib, Prayer::Dhuhr, Prayer::Asr]);
        let unit = if mode == 0 { 1.0 } else { 60.0 };
        let Some((a, b)) = super::seek_clock_boundary(st, &p0, site, date, None, pr, unit) else {
            st.count("clock_boundary_seeks.none_found");
            continue;
        };
        st.count(&format!("clock_boundary_seeks.{pr:?}.mode{mode}"));
        let pols: Vec<&str> = (0..4).map(|_| *rb.pick(&POLICIES[1..])).collect();
        for k in [0i64, -1, -2, -3, -5, -9, -17, -33, 1, 2, 4, 8, 16, 32] {
            let lon = if k <= 0 { super::nudge_ulps(a, k) } else { super::nudge_ulps(b, k - 1) };
            if !(-180.0..=180.0).contains(&lon) {
                continue;
            }
            for pol in &pols {
                let pl = if is_nearest_lat(pol) { Some(48.5 * site.lat.0.signum()) } else { None };
                let mut ps = PSpec::new(method).with_policy(pol, pl);
                ps.mode = mode;
                let mut s2 = site;
                s2.lon = X(lon);
                let c = Case { site: s2, date: d2s(date), p: ps };
                check(ctx, st, &c);
            }
        }
    }

    st.extra.insert("rule".into(), json!("seeded random (site |lat|<=70 with a third of the mass on 45..70, date, named method) x all 14 policies, each paired with the None-policy run of the same input; non-trivial = the policy actually acted (some entry replaced, flagged, created or removed); distinct by input hash"));
}
