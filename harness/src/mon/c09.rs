//! C09 — nearest-good-day fallback: closest date (earlier on ties) on which Fajr and Isha both exist.
use super::call;
use crate::gen;
use crate::rec::{Ctx, Stats};
use crate::util::*;
use chrono::Datelike;
use serde::{Deserialize, Serialize};
use serde_json::json;

/// every date in [start, start+len) at one site is checked
#[derive(Serialize, Deserialize, Clone, Debug)]
pub struct Case {
    pub site: Site,
    pub method: usize,
    pub start: String,
    pub len: u32,
    /// history diversity: a sibling site that differs only in its GMT offset is interleaved date by date
    #[serde(default)]
    pub alt_gmt: Option<X>,
    /// explicit weather passed to every call of this case (None = absent)
    #[serde(default)]
    pub weather: Option<(X, X)>,
}

const REACH: i32 = 400;

pub fn check(ctx: &Ctx, st: &mut Stats, c: &Case) {
    match c.alt_gmt {
        None => check_sites(ctx, st, c, &[c.site]),
        Some(g) => {
            let mut b = c.site;
            b.gmt = g;
            check_sites(ctx, st, c, &[c.site, b])
        }
    }
}

fn check_sites(ctx: &Ctx, st: &mut Stats, c0: &Case, sites: &[Site]) {
    let start = ce(s2d(&c0.start));
    let mut p0 = Params::new(METHODS[c0.method]);
    p0.round_seconds = RoundSeconds::None;
    p0.extreme_latitude_method = ExtremeLatitudeMethod::None;
    let lo = start - REACH;
    let n = c0.len as i32 + 2 * REACH;
    // reference tables: conventional result of every date in reach (policy None), one per site
    let mut tables: Vec<Vec<Option<Res>>> = vec![];
    for s in sites {
        let mut t = Vec::with_capacity(n as usize);
        for i in 0..n {
            t.push(call(st, &p0, s.loc(), from_ce(lo + i), c0.weather.map(|(a, b)| weather(a.0, b.0))).ok());
        }
        tables.push(t);
    }
    for k in 0..c0.len as i32 {
        for (si, s) in sites.iter().enumerate() {
            let c = Case { site: *s, method: c0.method, start: c0.start.clone(), len: c0.len, alt_gmt: None, weather: c0.weather };
            check_date(ctx, st, &c, &p0, &tables[si], start, k);
        }
    }
}

fn check_date(ctx: &Ctx, st: &mut Stats, c: &Case, p0: &Params, table: &[Option<Res>], start: i32, k: i32) {
    let l = c.site.loc();
    let good = |i: i32| -> bool {
        matches!(&table[i as usize], Some(r) if r[&Prayer::Fajr].is_ok() && r[&Prayer::Isha].is_ok())
    };
    {
        let idx = REACH + k;
        let date = from_ce(start + k);
        let one = Case {
            site: c.site,
            method: c.method,
            start: d2s(date),
            len: 1,
            alt_gmt: None,
            weather: c.weather,
        };
        st.begin_case(ctx, &one);
        let Some(base) = table[idx as usize].clone() else {
            st.count("panicked_cannot_decide(see C07)");
            return;
        };
        let needed = base[&Prayer::Fajr].is_err() || base[&Prayer::Isha].is_err();
        // reference good day: outward, earlier first
        let mut g: Option<i32> = None;
        'o: for i in 0..=REACH {
            for sg in [-1, 1] {
                if good(idx + sg * i) {
                    g = Some(sg * i);
                    break 'o;
                }
            }
        }
        let Some(gofs) = g else {
            st.count("no_good_day_within_400_days(undecided)");
            return;
        };
        let gres = table[(idx + gofs) as usize].clone().unwrap();
        for (pol, all) in [("NearestGoodDayFajrIshaInvalid", false), ("NearestGoodDayAllPrayersAlways", true)] {
            if !needed && !all && k % 8 != 0 {
                continue; // identity on good days is C08's business; sample it lightly
            }
            let mut p = p0.clone();
            p.extreme_latitude_method = policy(pol, None);
            let res = match call(st, &p, l, date, c.weather.map(|(a, b)| weather(a.0, b.0))) {
                Ok(r) => r,
                Err(pm) => {
                    if needed {
                        st.violate("not_reported", &one, json!({"policy": pol, "why": "the call panicked instead of reporting Fajr/Isha", "panic": pm, "south": c.site.lat.0 < 0.0, "month": date.month()}));
                    } else {
                        st.count("panicked_cannot_decide(see C07)");
                    }
                    continue;
                }
            };
            st.decided += 1;
            if needed {
                st.count(&format!("fallback_needed.{}.month{:02}", if c.site.lat.0 >= 0.0 { "north" } else { "south" }, date.month()));
                st.margin("good_day_distance_days", gofs as f64, REACH as f64, || json!({"case": one, "good_day_offset": gofs}));
            }
            let which: &[Prayer] = if all { &SIX } else { &[Prayer::Fajr, Prayer::Isha] };
            for pr in which {
                let want = gres[pr];
                let got = res[pr];
                let was_missing = base[pr].is_err();
                let detail = |why: &str| json!({"policy": pol, "prayer": format!("{pr:?}"), "why": why, "good_day": d2s(from_ce(start + k + gofs)), "good_day_offset": gofs, "conventional_on_date": res_json(&base), "conventional_on_good_day": res_json(&gres), "under_policy": res_json(&res), "month": date.month(), "south": c.site.lat.0 < 0.0});
                if !all && !was_missing {
                    // valid twin under the *Invalid variant must simply be present and untouched (C08(b))
                    if got != base[pr] {
                        st.violate("valid_twin_changed", &one, detail("a conventionally valid Fajr/Isha was altered by the only-if-invalid variant"));
                    }
                    continue;
                }
                st.count("checks.value_equals_good_day");
                match (want, got) {
                    (Ok(w), Ok(x)) => {
                        let d = off(secs(&x), secs(&w));
                        if d.abs() > 1.0 {
                            st.violate("not_the_closest_good_day_value", &one, detail("reported time differs from the conventional time of the closest good day"));
                        } else if !x.extreme {
                            st.violate("replaced_time_not_flagged", &one, detail("value taken from another day but not flagged extreme"));
                        }
                    }
                    (Ok(_), Err(_)) => st.violate("not_reported", &one, detail("a good day exists but the time is reported Invalid")),
                    (Err(_), Ok(_)) => st.violate("not_the_closest_good_day_value", &one, detail("good day lacks this time but a time was reported")),
                    (Err(_), Err(_)) => {}
                }
            }
            if needed {
                st.nontrivial_key(hash64(&format!("{:?}{}{}", c.site, c.method, start + k)));
            }
        }
    }
}

fn gen_site(r: &mut Rng) -> Site {
    let lon = gen::any_lon(r);
    let la = match r.int(0, 9) {
        0 => 64.0,
        1 => 48.0,
        _ => r.range(48.0, 64.0),
    } * r.sign();
    Site::new(la, lon, gen::any_elev(r), gen::gmt_near(r, lon, 1.0))
}

pub fn run(ctx: &Ctx, st: &mut Stats) {
    let nsy = ((ctx.pick(512, 24_000) as f64 * ctx.scale).ceil() as u64).max(2);
    let mut early: Vec<Case> = vec![];
    for i in 0..nsy {
        if !ctx.mine(i) {
            continue;
        }
        let mut r = Rng::new(ctx.seed, 901, i);
        let mut site = gen_site(&mut r);
        // alternate hemispheres deterministically so that both are always present
        if (i % 2 == 0) != (site.lat.0 > 0.0) {
            site.lat = X(-site.lat.0);
        }
        let year = match r.int(0, 5) {
            0 => 1600,
            1 => 2399,
            2 => *r.pick(&[1604, 1900, 2000, 2024, 2096, 2100, 2396]),
            _ => r.int(1601, 2398) as i32,
        };
        // 1600-01-01 and 2399-12-31 need reach outside the property's date window; the library accepts those dates
        let method = *r.pick(&ANGLE_METHODS);
        let len = crate::oracle::days_in_year(year) as u32;
        // a sibling site one hour of GMT offset away is interleaved date by date on a third of the site-years
        let alt = if i % 3 == 0 {
            let g = site.gmt.0 + if site.gmt.0 + 1.0 <= 12.0 { 1.0 } else { -1.0 };
            Some(X(g))
        } else {
            None
        };
        let c = Case {
            site,
            method,
            start: d2s(ymd(year, 1, 1)),
            len,
            alt_gmt: alt,
            // a quarter of the site-years pass explicit (non-standard) weather to every call
            weather: if i % 4 == 1 {
                let w = gen::any_weather(&mut r);
                Some((X(f64::from(w.pressure)), X(f64::from(w.temperature))))
            } else {
                None
            },
        };
        st.sample(|| json!({"site_year": c, "note": "every day of the year is checked under both nearest-good-day policies"}));
        check(ctx, st, &c);
        if early.len() < 6 {
            // remembered for the long-delay re-check at the end of the shard: mid-summer dates of this site-year
            let mid = if site.lat.0 > 0.0 { ymd(year, 6, 21) } else { ymd(year, 12, 21) };
            early.push(Case { site, method, start: d2s(from_ce(ce(mid) - 2)), len: 5, alt_gmt: None, weather: None });
        }
        st.count("site_years");
        st.count(if site.lat.0 > 0.0 { "site_years.north" } else { "site_years.south" });
    }
    // long-delay re-check: dates of the first site-years again, after everything else this shard has computed
    // (tens of thousands of unrelated searches later) — the answers must not have changed
    for c in &early {
        check(ctx, st, c);
        st.count("long_delay_rechecks(5 mid-summer dates of an early site-year)");
    }
    // boundary seeking: bisect the latitude (down to adjacent f64 values) so that a chosen date is the LAST day on
    // which Fajr still (just) exists — a good day with grazing twilight — and check the week around it: the bad
    // days next to it must take exactly that day's values
    let nb = ctx.quota(320, 24_000);
    let mut rb = Rng::new(ctx.seed, 902, ctx.shard);
    for _ in 0..nb {
        let north = rb.chance(0.5);
        let y = rb.int(1601, 2398) as i32;
        // towards the local summer solstice twilight disappears; after it, it comes back
        let towards = rb.chance(0.5);
        let (m, d) = match (north, towards) {
            (true, true) => (rb.int(4, 5), rb.int(1, 28)),
            (true, false) => (rb.int(7, 8), rb.int(5, 28)),
            (false, true) => (rb.int(10, 11), rb.int(1, 28)),
            (false, false) => (rb.int(1, 2), rb.int(5, 28)),
        };
        let date = ymd(y, m as u32, d as u32);
        let lon = gen::any_lon(&mut rb);
        let method = *rb.pick(&ANGLE_METHODS);
        let gmt = gen::gmt_near(&mut rb, lon, 1.0);
        let mut p0 = Params::new(METHODS[method]);
        p0.round_seconds = RoundSeconds::None;
        p0.extreme_latitude_method = ExtremeLatitudeMethod::None;
        let sgn = if north { 1.0 } else { -1.0 };
        let exists = |st: &mut Stats, la: f64| -> bool {
            call(st, &p0, loc(la, lon, 0.0, gmt), date, None).map(|r| r[&Prayer::Fajr].is_ok() && r[&Prayer::Isha].is_ok()).unwrap_or(false)
        };
        if !exists(st, 47.0 * sgn) || exists(st, 64.0 * sgn) {
            st.count("boundary_windows.no_transition_in_48_64");
            continue;
        }
        let (a, _b) = super::bisect(47.0 * sgn, 64.0 * sgn, |la| exists(st, la));
        if a.abs() < 48.0 {
            st.count("boundary_windows.transition_below_48");
            continue;
        }
        let c = Case { site: Site::new(a, lon, 0.0, gmt), method, start: d2s(from_ce(ce(date) - 3)), len: 7, alt_gmt: None, weather: None };
        check(ctx, st, &c);
        st.count("boundary_windows(grazing good day, week around it)");
    }
    st.extra.insert("rule".into(), json!("every day of whole years at sites 48<=|lat|<=64 in both hemispheres, angle methods; reference = outward search (earlier first) over the None-policy results of the neighbouring 400 days; non-trivial = dates on which Fajr or Isha is conventionally missing (fallback needed); distinct (site, method, date) by hash"));
}
