//! C10 — nearest-latitude and portion-of-night fallbacks follow their stated formulas (+-3 s, flagged).
use super::call;
use crate::gen;
use crate::rec::{Ctx, Stats};
use crate::util::*;
use serde::{Deserialize, Serialize};
use serde_json::json;

#[derive(Serialize, Deserialize, Clone, Debug)]
pub struct Case {
    pub site: Site,
    pub date: String,
    pub p: PSpec,
    /// weather passed to every call of the case (the policy run, the conventional run, the run at the substitute latitude)
    #[serde(default)]
    pub weather: Option<(X, X)>,
}

const TOL: f64 = 3.0;

pub fn check(_ctx: &Ctx, st: &mut Stats, c: &Case) {
    let pol = c.p.policy.as_str();
    let p = c.p.build();
    let mut p0 = p.clone();
    p0.extreme_latitude_method = ExtremeLatitudeMethod::None;
    let date = s2d(&c.date);
    let l = c.site.loc();
    let w = c.weather.map(|(a, b)| weather(a.0, b.0));
    // route diversity: every 16th case reads the policy result off the RANGE API (last date of a short range)
    let via_range = hash64(&c.date) % 16 == 3 && w.is_none();
    let res_call = if via_range {
        st.count("policy_result_read_via_range_api");
        st.evaluations += 1;
        let dr = DateRange::from(from_ce(ce(date) - (hash64(&c.date) % 5) as i32 - 1)..=date);
        super::guarded(|| prayer_times_dt_rng(&p, l, &dr)).and_then(|mut m| m.remove(&date).ok_or_else(|| "date missing from range result".to_string()))
    } else {
        call(st, &p, l, date, w)
    };
    let (Ok(base), Ok(res)) = (call(st, &p0, l, date, w), res_call) else {
        st.count("panicked_cannot_decide(see C07)");
        return;
    };
    let (Ok(sh), Ok(mg), Ok(dh)) = (base[&Prayer::Shurooq], base[&Prayer::Maghrib], base[&Prayer::Dhuhr]) else {
        st.count("no_shurooq_or_maghrib(undecided)");
        return;
    };
    // Shurooq and Maghrib must fall inside the civil day around Dhuhr (the property's own restriction)
    let (s, m, d) = (secs(&sh), secs(&mg), secs(&dh));
    if !(s < d && d < m) || near_midnight(s, 600.0) || near_midnight(m, 600.0) {
        st.count("shurooq_maghrib_not_inside_civil_day(undecided)");
        return;
    }
    let day = m - s;
    let night = 86400.0 - day;
    let fa = p0.angles[&Prayer::Fajr];
    let ia = p0.angles[&Prayer::Isha];
    let fint = p0.intervals[&Prayer::Fajr] * 60.0;
    let iint = p0.intervals[&Prayer::Isha] * 60.0;
    let all_six = SIX.iter().all(|pr| base[pr].is_ok());
    let both = || json!({"conventional(None policy)": res_json(&base), "under_policy": res_json(&res)});
    let mut acted = false;
    // ---- portion / minutes formulas
    let exp: Option<(f64, f64, bool)> = match pol {
        "SeventhOfNightFajrIshaAlways" => Some((s - night / 7.0, m + night / 7.0, true)),
        "SeventhOfNightFajrIshaInvalid" => Some((s - night / 7.0, m + night / 7.0, false)),
        "SeventhOfDayFajrIshaAlways" => Some((s - day / 7.0, m + day / 7.0, true)),
        "SeventhOfDayFajrIshaInvalid" => Some((s - day / 7.0, m + day / 7.0, false)),
        "AngleBased" => {
            if all_six {
                None
            } else {
                Some((s - fa / 60.0 * night, m + ia / 60.0 * night, true))
            }
        }
        "MinutesFromMaghribFajrIshaAlways" => Some((s - fint, m + iint, true)),
        "MinutesFromMaghribFajrIshaInvalid" => Some((s - fint, m + iint, false)),
        _ => None,
    };
    if let Some((ef, ei, always)) = exp {
        for (pr, ex, intv) in [(Prayer::Fajr, ef, fint), (Prayer::Isha, ei, iint)] {
            // a Fajr/Isha that the method defines by an interval keeps that definition
            let ex = if intv != 0.0 && pol != "MinutesFromMaghribFajrIshaInvalid" {
                if pr == Prayer::Fajr {
                    s - intv
                } else {
                    m + intv
                }
            } else {
                ex
            };
            if always || base[&pr].is_err() {
                st.count("checks.formula");
                acted = true;
                match res[&pr] {
                    Ok(x) => {
                        let dlt = off(secs(&x), ex.rem_euclid(86400.0));
                        st.margin("formula_deviation_s", dlt, TOL, || json!({"case": c, "prayer": format!("{pr:?}"), "results": both()}));
                        if dlt.abs() > TOL {
                            st.violate("formula", c, json!({"prayer": format!("{pr:?}"), "got": x.time.to_string(), "want_clock_s": ex.rem_euclid(86400.0), "diff_s": dlt, "day_s": day, "night_s": night, "results": both()}));
                        }
                        if !x.extreme && intv == 0.0 {
                            st.violate("replaced_not_flagged", c, json!({"prayer": format!("{pr:?}"), "results": both()}));
                        }
                    }
                    Err(_) => st.violate("formula_missing", c, json!({"prayer": format!("{pr:?}"), "results": both()})),
                }
            }
        }
    }
    // ---- interval definition kept under every policy that re-applies intervals
    if iint != 0.0
        && !matches!(pol, "MinutesFromMaghribFajrIshaInvalid" | "HalfOfNightFajrIshaAlways" | "HalfOfNightFajrIshaInvalid" | "NearestLatitudeAllPrayersAlways" | "NearestGoodDayAllPrayersAlways")
    {
        st.count("checks.interval_definition_kept");
        match res[&Prayer::Isha] {
            Ok(x) => {
                let dlt = off(secs(&x), (m + iint).rem_euclid(86400.0));
                if dlt.abs() > TOL {
                    st.violate("interval_definition_lost", c, json!({"prayer": "Isha", "diff_s": dlt, "results": both()}));
                }
            }
            Err(_) => st.violate("interval_definition_lost", c, json!({"prayer": "Isha", "missing": true, "results": both()})),
        }
    }
    // ---- nearest latitude
    if is_nearest_lat(pol) {
        let nl = c.p.policy_lat.unwrap().0;
        let l2 = loc(nl, c.site.lon.0, c.site.elev.0, c.site.gmt.0);
        if let Ok(sub) = call(st, &p0, l2, date, w) {
            let all = pol == "NearestLatitudeAllPrayersAlways";
            let which: &[Prayer] = if all { &SIX } else { &[Prayer::Fajr, Prayer::Isha] };
            for pr in which {
                if pol == "NearestLatitudeFajrIshaInvalid" && base[pr].is_ok() {
                    continue;
                }
                if c.p.method >= 7 && *pr == Prayer::Isha && !all {
                    continue; // interval-defined Isha: checked by the interval clause above
                }
                st.count("checks.nearest_latitude");
                acted = true;
                match (sub[pr], res[pr]) {
                    (Ok(a), Ok(b)) => {
                        // under "all prayers" an interval-defined Isha is re-derived from the substituted Maghrib: equal to the substitute run as well
                        let dlt = off(secs(&b), secs(&a));
                        st.margin("nearest_latitude_deviation_s", dlt, TOL, || json!({"case": c, "prayer": format!("{pr:?}"), "substitute_run": res_json(&sub), "results": both()}));
                        if dlt.abs() > TOL {
                            st.violate("nearest_latitude_value", c, json!({"prayer": format!("{pr:?}"), "diff_s": dlt, "at_substitute_latitude": res_json(&sub), "results": both()}));
                        }
                        if !b.extreme {
                            st.violate("replaced_not_flagged", c, json!({"prayer": format!("{pr:?}"), "results": both()}));
                        }
                    }
                    (Err(_), Ok(b)) => {
                        if matches!(pr, Prayer::Fajr | Prayer::Isha) {
                            // substitute latitude has no such time: the site's own value must be left alone
                            if base[pr].map(|x| x.time) != Ok(b.time) {
                                st.violate("nearest_latitude_value", c, json!({"prayer": format!("{pr:?}"), "why": "substitute latitude has no such time but the value changed", "at_substitute_latitude": res_json(&sub), "results": both()}));
                            }
                        } else if *pr != Prayer::Dhuhr {
                            st.violate("nearest_latitude_value", c, json!({"prayer": format!("{pr:?}"), "why": "substitute latitude has no such time but one is reported", "at_substitute_latitude": res_json(&sub), "results": both()}));
                        }
                    }
                    (Ok(_), Err(_)) => st.violate("nearest_latitude_missing", c, json!({"prayer": format!("{pr:?}"), "at_substitute_latitude": res_json(&sub), "results": both()})),
                    _ => {}
                }
            }
        }
    }
    st.decided += 1;
    if acted {
        st.count(&format!("formula_checked.{pol}"));
        st.nontrivial_key(hash64(&format!("{:?}", c)));
    }
}

pub fn run(ctx: &Ctx, st: &mut Stats) {
    st.max_samples = 10;
    let n = ctx.quota(100_000, 6_000_000);
    let mut r = Rng::new(ctx.seed, 1001, ctx.shard);
    let pols = [
        "AngleBased",
        "NearestLatitudeAllPrayersAlways",
        "NearestLatitudeFajrIshaAlways",
        "NearestLatitudeFajrIshaInvalid",
        "SeventhOfNightFajrIshaAlways",
        "SeventhOfNightFajrIshaInvalid",
        "SeventhOfDayFajrIshaAlways",
        "SeventhOfDayFajrIshaInvalid",
        "MinutesFromMaghribFajrIshaAlways",
        "MinutesFromMaghribFajrIshaInvalid",
    ];
    for k in 0..n {
        let lon = gen::any_lon(&mut r);
        // "invalid" variants only act where a time is missing: put half the mass on 48..60
        let la = match r.int(0, 7) {
            0 => 60.0 * r.sign(),
            1 | 2 | 3 => r.range(48.0, 60.0) * r.sign(),
            _ => r.range(-60.0, 60.0),
        };
        let site = Site::new(la, lon, gen::any_elev(&mut r), gen::gmt_near(&mut r, lon, 1.0));
        let date = d2s(if r.chance(0.4) {
            // solstice-side dates where twilight goes missing
            let y = r.int(1600, 2399) as i32;
            let (m, d) = if (la > 0.0) == r.chance(0.9) { (6, r.int(1, 30)) } else { (12, r.int(1, 31)) };
            ymd(y, m, d as u32)
        } else {
            rand_date(&mut r)
        });
        let method = r.int(1, 8) as usize;
        // a third of the inputs carry weather anywhere in its legal range (thin cold air included): the formulas are
        // stated for the times "of the same input", weather included
        let wx = if r.chance(0.33) {
            let w = gen::any_weather(&mut r);
            Some((X(f64::from(w.pressure)), X(f64::from(w.temperature))))
        } else {
            None
        };
        for pol in pols {
            let pl = if is_nearest_lat(pol) {
                Some(match r.int(0, 6) {
                    6 => site.lat.0, // substitute bit-equal to the site's own latitude: values equal, flags still required
                    0 => 48.5,
                    1 => -48.5,
                    2 => 0.0,
                    _ => r.range(-60.0, 60.0),
                })
            } else {
                None
            };
            let c = Case {
                site,
                date: date.clone(),
                p: PSpec::new(method).with_policy(pol, pl),
                weather: wx,
            };
            check(ctx, st, &c);
            if k == 0 {
                st.sample(|| json!(c));
            }
        }
    }
    st.extra.insert("rule".into(), json!("seeded random (site |lat|<=60, gmt within 1 h of lon/15, date, 8 named methods) x 10 formula-bearing policies, substitute latitudes of either sign in [-60,60]; expected values are computed from the None-policy run of the same input (and a fresh None-policy run at the substitute latitude); non-trivial = at least one formula / nearest-latitude comparison was made; distinct by input hash"));
}
