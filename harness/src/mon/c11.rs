//! C11 — rounding follows the selected policy exactly.
//! Level 1 (hook, exhaustive): every second of the day x mode x prayer key x minute offsets, through the
//!   library's own hour->clock function. Level 2 (public API): each mode against mode None on real inputs.
use super::{call, guarded};
use crate::gen;
use crate::oracle::model_round;
use crate::rec::{Ctx, Stats};
use crate::util::*;
use chrono::Timelike;
use serde::{Deserialize, Serialize};
use serde_json::json;

#[derive(Serialize, Deserialize, Clone, Debug)]
pub struct Case {
    /// "hook" | "api"
    pub kind: String,
    // hook level
    pub hour: Option<X>,
    pub prayer: Option<usize>, // index into SEVEN
    pub offset_min: Option<X>,
    // api level
    pub site: Option<Site>,
    pub date: Option<String>,
    pub p: Option<PSpec>,
    /// api level: optional weather (pressure, temperature) passed to every call of the case
    #[serde(default)]
    pub weather: Option<(X, X)>,
}

fn hms(t: chrono::NaiveTime) -> (u32, u32, u32) {
    (t.hour(), t.minute(), t.second())
}
fn tsec(t: (u32, u32, u32)) -> f64 {
    (t.0 * 3600 + t.1 * 60 + t.2) as f64
}

fn check_hook(st: &mut Stats, c: &Case) {
    let hour = c.hour.unwrap().0;
    let pi = c.prayer.unwrap();
    let pr = SEVEN[pi];
    let ofs = c.offset_min.unwrap().0;
    let mut p = Params::new(Method::Shafi);
    p.minutes.insert(pr, ofs);
    p.round_seconds = RoundSeconds::None;
    st.tick();
    let base = match guarded(|| verif_hour_to_time(&p, pr, hour)) {
        Ok(t) => {
            if t.nanosecond() != 0 {
                st.violate("unrounded_conversion", c, json!({"level": "hook", "why": "the reported time carries a fraction of a second", "nanosecond": t.nanosecond(), "time": format!("{t:?}")}));
            }
            hms(t)
        }
        Err(pm) => {
            st.violate("hook_panic", c, json!({"mode": "None", "panic": pm}));
            return;
        }
    };
    st.evaluations += 1;
    // absolute check of the unrounded conversion (integer model): hour = (s + frac)/3600 with frac well inside the
    // second, plus a whole-minute offset, must give exactly second s (+ offset) of the day
    if ofs.fract() == 0.0 {
        let sec_of_day = (hour * 3600.0).floor() as i64; // frac is in [0.0005, 0.9995]: floor is exact
        let t = (sec_of_day + ofs as i64 * 60).rem_euclid(86400) as u32;
        let want = (t / 3600, (t / 60) % 60, t % 60);
        st.count("hook.absolute_unrounded_checks");
        if base != want {
            st.violate("unrounded_conversion", c, json!({"level": "hook", "prayer": format!("{pr:?}"), "hour": hour, "offset_min": ofs, "got_hms": base, "want_hms": want}));
        }
    }
    for mode in [RoundSeconds::NormalRounding, RoundSeconds::SpecialRounding, RoundSeconds::AggressiveRounding] {
        p.round_seconds = mode;
        st.evaluations += 1;
        let got = match guarded(|| verif_hour_to_time(&p, pr, hour)) {
            Ok(t) => hms(t),
            Err(pm) => {
                st.violate("hook_panic", c, json!({"mode": format!("{mode:?}"), "panic": pm}));
                continue;
            }
        };
        if pr == Prayer::Imsaak {
            // the public API never passes the Imsaak key (Imsaak is computed under the Fajr key): observed, not judged
            st.count("hook.imsaak_key_observed_not_judged");
            continue;
        }
        st.decided += 1;
        let want = model_round(mode, pr, base.0, base.1, base.2);
        let moved = off(tsec(got), tsec(base));
        if want != got {
            st.violate("rounding_function", c, json!({"level": "hook", "mode": format!("{mode:?}"), "prayer": format!("{pr:?}"), "unrounded_hms": base, "got_hms": got, "want_hms": want}));
        } else if moved.abs() >= 60.0 {
            st.violate("moves_a_minute_or_more", c, json!({"level": "hook", "mode": format!("{mode:?}"), "unrounded_hms": base, "got_hms": got}));
        }
    }
}

fn check_api(st: &mut Stats, c: &Case) {
    let site = c.site.unwrap();
    let date = s2d(c.date.as_ref().unwrap());
    let mut p = c.p.as_ref().unwrap().build();
    p.round_seconds = RoundSeconds::None;
    let w = c.weather.map(|(a, b)| weather(a.0, b.0));
    let Ok(base) = call(st, &p, site.loc(), date, w) else {
        st.count("panicked_cannot_decide(see C07)");
        return;
    };
    for mode in [RoundSeconds::NormalRounding, RoundSeconds::SpecialRounding, RoundSeconds::AggressiveRounding] {
        p.round_seconds = mode;
        let Ok(res) = call(st, &p, site.loc(), date, w) else {
            st.count("panicked_cannot_decide(see C07)");
            continue;
        };
        st.decided += 1;
        // independent expectation for Imsaak when the reported Fajr is extreme (no intervals): Imsaak is Fajr minus
        // 90 s, so its rounded value follows from the UNROUNDED FAJR of the mode-None run, not only from the
        // library's own unrounded Imsaak
        if let (Ok(f0), Ok(im)) = (base[&Prayer::Fajr], res[&Prayer::Imsaak]) {
            if f0.extreme && p.intervals[&Prayer::Imsaak] == 0.0 && p.intervals[&Prayer::Fajr] == 0.0 {
                let t = (isecs(&f0) - 90).rem_euclid(86400) as u32;
                let (h, m, sec) = (t / 3600, (t / 60) % 60, t % 60);
                // stay one second clear of the mode's threshold (the subtraction is exact up to float dust)
                let near = match mode {
                    RoundSeconds::AggressiveRounding => sec <= 1 || sec == 59,
                    _ => (29..=30).contains(&sec),
                };
                if !near {
                    st.count("api.imsaak_from_unrounded_extreme_fajr_checks");
                    let want = model_round(mode, Prayer::Fajr, h, m, sec);
                    if want != hms(im.time) {
                        st.violate("rounding_function", c, json!({"level": "api", "mode": format!("{mode:?}"), "prayer": "Imsaak", "unrounded_fajr(extreme)": f0.time.to_string(), "expected_unrounded_imsaak": format!("{h:02}:{m:02}:{sec:02}"), "got": im.time.to_string(), "want_hms": want}));
                    }
                }
            }
        }
        for pr in SEVEN {
            match (base[&pr], res[&pr]) {
                (Ok(a), Ok(b)) => {
                    if a.time.nanosecond() != 0 || b.time.nanosecond() != 0 {
                        // every mode reports whole seconds (mode None drops the fraction, the others whole minutes)
                        st.violate("rounding_function", c, json!({"level": "api", "mode": format!("{mode:?}"), "prayer": format!("{pr:?}"), "why": "a reported time carries a fraction of a second", "unrounded": format!("{:?}", a.time), "got": format!("{:?}", b.time)}));
                    }
                    let u = hms(a.time);
                    let want = model_round(mode, pr, u.0, u.1, u.2);
                    let got = hms(b.time);
                    st.count("api.entry_checks");
                    if u.2 == 29 || u.2 == 30 || u.2 == 59 || u.2 == 0 || u.2 == 1 {
                        st.count("api.threshold_seconds_seen(0,1,29,30,59)");
                    }
                    if u.1 == 59 && want.1 == 0 {
                        st.count("api.carry_through_hour_seen");
                    }
                    if u.0 == 23 && want.0 == 0 {
                        st.count("api.carry_through_midnight_seen");
                    }
                    if want != got {
                        st.violate("rounding_function", c, json!({"level": "api", "mode": format!("{mode:?}"), "prayer": format!("{pr:?}"), "unrounded": a.time.to_string(), "got": b.time.to_string(), "want_hms": want}));
                    } else if off(tsec(got), tsec(u)).abs() >= 60.0 {
                        st.violate("moves_a_minute_or_more", c, json!({"level": "api", "mode": format!("{mode:?}"), "prayer": format!("{pr:?}"), "unrounded": a.time.to_string(), "got": b.time.to_string()}));
                    }
                    if a.extreme != b.extreme {
                        st.violate("rounding_changes_flag", c, json!({"mode": format!("{mode:?}"), "prayer": format!("{pr:?}")}));
                    }
                }
                (Err(_), Err(_)) => {}
                _ => st.violate("rounding_changes_validity", c, json!({"mode": format!("{mode:?}"), "prayer": format!("{pr:?}"), "unrounded": res_json(&base), "rounded": res_json(&res)})),
            }
        }
    }
}

pub fn check(_ctx: &Ctx, st: &mut Stats, c: &Case) {
    if c.kind == "hook" {
        check_hook(st, c)
    } else {
        check_api(st, c)
    }
}

pub fn run(ctx: &Ctx, st: &mut Stats) {
    // Level 1: exhaustive over the seconds of the day (partitioned over shards)
    let mut r = Rng::new(ctx.seed, 1101, 0); // same offsets in every shard
    let seeded_offsets: Vec<f64> = (0..ctx.pick(2, 12)).map(|i| if i % 2 == 0 { r.int(-1500, 1500) as f64 } else { r.range(-1500.0, 1500.0) }).collect();
    let mut offsets = vec![0.0, -1500.0, 1500.0, -1440.0, 1440.0, -0.5, 59.0];
    offsets.extend(seeded_offsets);
    let mut n_hook = 0u64;
    for s in 0..86400u64 {
        if !ctx.mine(s) {
            continue;
        }
        // position inside the second rotates (middle, just after the tick, just before the next tick)
        let frac = [0.5, 0.0005, 0.9995][((s + s / 60) % 3) as usize];
        let hour = (s as f64 + frac) / 3600.0;
        for pi in 0..7usize {
            for ofs in &offsets {
                let c = Case {
                    kind: "hook".into(),
                    hour: Some(X(hour)),
                    prayer: Some(pi),
                    offset_min: Some(X(*ofs)),
                    site: None,
                    date: None,
                    p: None,
                    weather: None,
                };
                check_hook(st, &c);
                n_hook += 1;
                if s < 2 * ctx.nshards && pi == 1 && *ofs == 0.0 {
                    st.sample(|| json!(c));
                }
            }
        }
    }
    st.add("hook.cases(second x prayer key x offset)", n_hook);
    st.nontrivial_by_construction(n_hook / 7 * 6);
    st.extra.insert("hook_level_exhaustive_over_seconds_of_day".into(), json!(true));
    st.extra.insert("hook_offsets_minutes".into(), json!(offsets));
    // Level 2: public API
    let n = ctx.quota(400_000, 30_000_000);
    let mut r = Rng::new(ctx.seed, 1102, ctx.shard);
    for k in 0..n {
        let lon = gen::any_lon(&mut r);
        let mut p = PSpec::new(r.int(1, 8) as usize);
        let site_lat = gen::lat_within(&mut r, 58.0);
        if r.chance(0.35) {
            p = p.with_policy("NearestGoodDayFajrIshaInvalid", None);
        } else if r.chance(0.3) {
            p = p.with_policy("SeventhOfNightFajrIshaAlways", None);
        } else if r.chance(0.6) {
            // any policy; substitute latitudes include the site's own latitude and near misses of it (values that agree
            // to the minute but not to the second): neither flag nor validity may depend on the rounding mode
            let pol = *r.pick(&POLICIES);
            let pl = if is_nearest_lat(pol) {
                Some(match r.int(0, 3) {
                    0 => site_lat.clamp(-60.0, 60.0),
                    1 => (site_lat + r.range(-0.05, 0.05)).clamp(-60.0, 60.0),
                    _ => r.range(-60.0, 60.0),
                })
            } else {
                None
            };
            p = p.with_policy(pol, pl);
        }
        if r.chance(0.3) {
            p.imsaak_int = Some(X(if r.chance(0.5) { r.int(1, 30) as f64 } else { r.range(0.5, 30.0) }));
        }
        if r.chance(0.15) {
            p.fajr_int = Some(X(r.range(1.0, 120.0)));
        }
        if r.chance(0.15) {
            p.isha_int = Some(X(r.range(1.0, 120.0)));
        }
        if r.chance(0.5) {
            let mut m = [X(0.0); 7];
            for x in m.iter_mut() {
                *x = X(if r.chance(0.5) { r.int(-1500, 1500) as f64 } else { r.range(-1500.0, 1500.0) });
            }
            p.minutes = Some(m);
        }
        let c = Case {
            kind: "api".into(),
            hour: None,
            prayer: None,
            offset_min: None,
            site: Some(Site::new(site_lat, lon, gen::any_elev(&mut r), gen::any_gmt(&mut r))),
            date: Some(d2s(rand_date(&mut r))),
            p: Some(p),
            // the rounding rule is the same whether or not weather is supplied (standard atmosphere given explicitly included)
            weather: match r.int(0, 5) {
                0 => Some((X(1010.0), X(14.0))),
                1 => {
                    let w = gen::any_weather(&mut r);
                    Some((X(f64::from(w.pressure)), X(f64::from(w.temperature))))
                }
                _ => None,
            },
        };
        check_api(st, &c);
        st.nontrivial_key(hash64(&format!("{:?}", c)));
        if k < 2 {
            st.sample(|| json!(c));
        }
    }
    st.extra.insert("rule".into(), json!("level 1: every second of the day (hour=(s+f)/3600, f rotating over 0.5, 0.0005, 0.9995; the unrounded output is also checked absolutely against the integer second) x 7 prayer keys x minute offsets {0,+-1500,+-1440,-0.5,59,seeded} x 3 modes through the library's own hour->clock function, expected = integer rounding model applied to the mode-None output of the same call (distinct by construction; the Imsaak key is observed but not judged); level 2: seeded real inputs through the public API, each mode against mode None (distinct by input hash)"));
}
