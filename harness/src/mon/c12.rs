//! C12 — each parameter affects only the times it is documented to affect (paired executions).
use super::call;
use crate::gen;
use crate::rec::{Ctx, Stats};
use crate::util::*;
use serde::{Deserialize, Serialize};
use serde_json::json;

#[derive(Serialize, Deserialize, Clone, Debug)]
pub struct Case {
    pub site: Site,
    pub date: String,
    pub p: PSpec,
    /// minutes | isha_int | fajr_int | imsaak_int | asr_school | fajr_angle | isha_angle | weather | weather_default | imsaak_extreme
    pub kind: String,
    /// index into SEVEN for kind=minutes
    pub key: Option<usize>,
    pub value: Option<X>,
    pub value2: Option<X>,
    /// weather passed to BOTH executions (None = absent); the kinds "weather"/"weather_default" override it for the second
    #[serde(default)]
    pub base_weather: Option<(X, X)>,
}

fn same(a: &Result<PrayerTime, ()>, b: &Result<PrayerTime, ()>) -> bool {
    a == b
}
fn flagged(a: &Result<PrayerTime, ()>) -> bool {
    a.map(|t| t.extreme).unwrap_or(false)
}

pub fn check(_ctx: &Ctx, st: &mut Stats, c: &Case) {
    let p = c.p.build();
    let date = s2d(&c.date);
    let l = c.site.loc();
    let bw = c.base_weather.map(|(a, b)| weather(a.0, b.0));
    let Ok(base) = call(st, &p, l, date, bw) else {
        st.count("panicked_cannot_decide(see C07)");
        return;
    };
    let mut p2 = p.clone();
    let mut w2: Option<Weather> = bw;
    let v = c.value.map(|x| x.0).unwrap_or(0.0);
    match c.kind.as_str() {
        "minutes" => {
            p2.minutes.insert(SEVEN[c.key.unwrap()], p.minutes[&SEVEN[c.key.unwrap()]] + v);
        }
        "isha_int" => {
            p2.intervals.insert(Prayer::Isha, v);
        }
        "fajr_int" => {
            p2.intervals.insert(Prayer::Fajr, v);
        }
        "imsaak_int" => {
            p2.intervals.insert(Prayer::Imsaak, v);
        }
        "asr_school" => {
            p2.asr_shadow_ratio = if p.asr_shadow_ratio == AsrShadowRatio::Shafi { AsrShadowRatio::Hanafi } else { AsrShadowRatio::Shafi };
        }
        "fajr_angle" => {
            p2.angles.insert(Prayer::Fajr, p.angles[&Prayer::Fajr] + v);
        }
        "isha_angle" => {
            p2.angles.insert(Prayer::Isha, p.angles[&Prayer::Isha] + v);
        }
        "weather" => w2 = Some(weather(v, c.value2.unwrap().0)),
        "weather_default" => w2 = Some(Weather::default()),
        "imsaak_extreme" => {}
        _ => panic!("unknown kind"),
    }
    let Ok(res) = call(st, &p2, l, date, w2) else {
        st.count("panicked_cannot_decide(see C07)");
        return;
    };
    st.decided += 1;
    st.count(&format!("pairs.{}", c.kind));
    let both = || json!({"before": res_json(&base), "after": res_json(&res)});
    let unchanged_except = |st: &mut Stats, allowed: &[Prayer], clause: &str, skip_flagged: bool| {
        for pr in SEVEN {
            if allowed.contains(&pr) {
                continue;
            }
            if skip_flagged && (flagged(&base[&pr]) || flagged(&res[&pr])) {
                // A substituted (flagged) entry may legitimately depend on the other angle in two ways only:
                // (i) nearest-good-day: the good day is defined by BOTH twilights; (ii) the change switched the
                // policy on or off for that day (flag status differs between the runs). A value that is
                // substituted in both runs by any other policy is a function of its own angle at most.
                let both = flagged(&base[&pr]) && flagged(&res[&pr]);
                let gate_changed = [Prayer::Fajr, Prayer::Isha].iter().any(|q| flagged(&base[q]) != flagged(&res[q]));
                if c.p.policy.starts_with("NearestGoodDay") || !both || gate_changed {
                    st.count("excluded.flagged_entry_is_a_function_of_both_angles_by_definition");
                    continue;
                }
                st.count("checks.substituted_entry_independent_of_other_angle");
            }
            if !same(&base[&pr], &res[&pr]) {
                st.violate(clause, c, json!({"changed_prayer": format!("{pr:?}"), "results": both()}));
            }
        }
    };
    match c.kind.as_str() {
        "minutes" => {
            let k = SEVEN[c.key.unwrap()];
            let moved: &[Prayer] = match k {
                Prayer::Fajr => &[Prayer::Fajr, Prayer::Imsaak],
                Prayer::Imsaak => &[Prayer::Imsaak],
                _ => std::slice::from_ref(&k),
            };
            unchanged_except(st, moved, "offset_moves_other_prayer", false);
            if k != Prayer::Imsaak {
                for pr in moved {
                    match (base[pr], res[pr]) {
                        (Ok(a), Ok(b)) => {
                            let want = (secs(&a) + v * 60.0).rem_euclid(86400.0);
                            let d = off(secs(&b), want);
                            st.margin("offset_shift_error_s", d, 1.0, || json!({"case": c, "results": both()}));
                            if d.abs() > 1.0 + 1e-6 || a.extreme != b.extreme {
                                st.violate("offset_not_exact", c, json!({"prayer": format!("{pr:?}"), "offset_min": v, "error_s": d, "results": both()}));
                            }
                        }
                        (Err(_), Err(_)) => {}
                        _ => st.violate("offset_changes_validity", c, json!({"prayer": format!("{pr:?}"), "results": both()})),
                    }
                }
            }
        }
        "isha_int" | "fajr_int" => {
            let (target, anchor, sign) = if c.kind == "isha_int" { (Prayer::Isha, Prayer::Maghrib, 1.0) } else { (Prayer::Fajr, Prayer::Shurooq, -1.0) };
            match (res[&anchor], res[&target]) {
                (Ok(a), Ok(t)) => {
                    // both carry their own minute offsets (zero unless the base has offsets)
                    let want = (secs(&a) - p2.minutes[&anchor] * 60.0 + sign * v * 60.0 + p2.minutes[&target] * 60.0).rem_euclid(86400.0);
                    let d = off(secs(&t), want);
                    st.margin("interval_error_s", d, 1.0, || json!({"case": c, "results": both()}));
                    if d.abs() > 1.0 + 1e-6 {
                        st.violate("interval_definition", c, json!({"prayer": format!("{target:?}"), "anchor": format!("{anchor:?}"), "interval_min": v, "error_s": d, "results": both()}));
                    }
                }
                (Ok(_), Err(_)) => st.violate("interval_definition", c, json!({"prayer": format!("{target:?}"), "why": "anchor exists but interval-defined time is Invalid", "results": both()})),
                _ => st.count("interval.anchor_missing"),
            }
            let allowed: &[Prayer] = if c.kind == "isha_int" { &[Prayer::Isha] } else { &[Prayer::Fajr, Prayer::Imsaak] };
            unchanged_except(st, allowed, "interval_moves_other_prayer", false);
        }
        "imsaak_int" => {
            match (res[&Prayer::Fajr], res[&Prayer::Imsaak]) {
                (Ok(f), Ok(i)) => {
                    let d = off(secs(&f), secs(&i)) - v * 60.0;
                    st.margin("imsaak_interval_error_s", d, 1.0, || json!({"case": c, "results": both()}));
                    if d.abs() > 1.0 + 1e-6 {
                        st.violate("imsaak_interval", c, json!({"interval_min": v, "error_s": d, "results": both()}));
                    }
                }
                (Ok(_), Err(_)) => st.violate("imsaak_interval", c, json!({"why": "Fajr exists but Imsaak is Invalid", "results": both()})),
                _ => {}
            }
            unchanged_except(st, &[Prayer::Imsaak], "interval_moves_other_prayer", false);
        }
        "imsaak_extreme" => {
            // single execution: when Fajr is extreme (and no Imsaak interval) Imsaak = Fajr - 1.5 min, flagged
            if let Ok(f) = base[&Prayer::Fajr] {
                if f.extreme && p.intervals[&Prayer::Imsaak] == 0.0 {
                    st.count("imsaak_extreme.fajr_extreme_seen");
                    match base[&Prayer::Imsaak] {
                        Ok(i) => {
                            let d = off(secs(&f), secs(&i)) - 90.0;
                            st.margin("imsaak_extreme_error_s", d, 1.0, || json!({"case": c, "result": res_json(&base)}));
                            if d.abs() > 1.0 + 1e-6 || !i.extreme {
                                st.violate("imsaak_when_fajr_extreme", c, json!({"error_s": d, "imsaak_flagged": i.extreme, "result": res_json(&base)}));
                            }
                        }
                        Err(_) => st.violate("imsaak_when_fajr_extreme", c, json!({"why": "Fajr extreme but Imsaak Invalid", "result": res_json(&base)})),
                    }
                }
            }
        }
        "asr_school" => {
            unchanged_except(st, &[Prayer::Asr], "asr_school_moves_other_prayer", false);
            if let (Ok(a), Ok(b)) = (base[&Prayer::Asr], res[&Prayer::Asr]) {
                if a.time == b.time {
                    st.violate("asr_school_has_no_effect", c, json!({"results": both()}));
                }
            }
        }
        "fajr_angle" => unchanged_except(st, &[Prayer::Fajr, Prayer::Imsaak], "fajr_angle_moves_other_prayer", true),
        "isha_angle" => unchanged_except(st, &[Prayer::Isha], "isha_angle_moves_other_prayer", true),
        "weather" => {
            // derived from Shurooq/Maghrib: interval-defined times and anything a policy built from them (flagged)
            let mut allowed = vec![Prayer::Shurooq, Prayer::Maghrib];
            if p.intervals[&Prayer::Isha] != 0.0 {
                allowed.push(Prayer::Isha);
            }
            if p.intervals[&Prayer::Fajr] != 0.0 {
                allowed.push(Prayer::Fajr);
                allowed.push(Prayer::Imsaak);
            }
            for pr in SEVEN {
                if allowed.contains(&pr) {
                    continue;
                }
                if flagged(&base[&pr]) || flagged(&res[&pr]) {
                    st.count("excluded.flagged_entry_may_derive_from_shurooq_maghrib");
                    continue;
                }
                if !same(&base[&pr], &res[&pr]) {
                    st.violate("weather_moves_underived_prayer", c, json!({"changed_prayer": format!("{pr:?}"), "results": both()}));
                }
            }
        }
        "weather_default" => {
            if base != res {
                st.violate("absent_weather_not_default", c, json!({"results": both()}));
            }
        }
        _ => {}
    }
}

const POLS_ANY: [&str; 11] = [
    "NearestGoodDayFajrIshaInvalid",
    "AngleBased",
    "SeventhOfNightFajrIshaAlways",
    "SeventhOfNightFajrIshaInvalid",
    "SeventhOfDayFajrIshaAlways",
    "SeventhOfDayFajrIshaInvalid",
    "NearestLatitudeFajrIshaInvalid",
    "NearestLatitudeFajrIshaAlways",
    "NearestLatitudeAllPrayersAlways",
    "MinutesFromMaghribFajrIshaAlways",
    "NearestGoodDayAllPrayersAlways",
];
/// the three policies that consume the Fajr/Isha intervals themselves: used for every kind except the interval ones
const POLS_INTERVAL_CONSUMING: [&str; 3] = ["HalfOfNightFajrIshaAlways", "HalfOfNightFajrIshaInvalid", "MinutesFromMaghribFajrIshaInvalid"];

fn gen_case(r: &mut Rng) -> Case {
    let lon = gen::any_lon(r);
    let site = Site::new(gen::lat_within(r, 62.0), lon, gen::any_elev(r), gen::gmt_near(r, lon, 3.0));
    let date = d2s(if r.chance(0.2) { hostile_date(r) } else { rand_date(r) });
    let kinds = ["minutes", "minutes", "minutes", "isha_int", "fajr_int", "imsaak_int", "asr_school", "fajr_angle", "isha_angle", "weather", "weather_default", "imsaak_extreme"];
    let kind = *r.pick(&kinds);
    let mut p = PSpec::new(r.int(0, 8) as usize);
    if matches!(kind, "fajr_angle" | "isha_angle") {
        p.method = *r.pick(&ANGLE_METHODS);
    }
    if r.chance(0.5) {
        let pol = if !matches!(kind, "isha_int" | "fajr_int" | "imsaak_int") && r.chance(0.2) { *r.pick(&POLS_INTERVAL_CONSUMING) } else { *r.pick(&POLS_ANY) };
        let pl = if is_nearest_lat(pol) { Some(r.range(-55.0, 55.0)) } else { None };
        p = p.with_policy(pol, pl);
    }
    if kind == "imsaak_extreme" {
        // make an extreme Fajr likely
        let pol = *r.pick(&["SeventhOfNightFajrIshaAlways", "NearestLatitudeFajrIshaAlways", "NearestGoodDayAllPrayersAlways", "NearestGoodDayFajrIshaInvalid", "AngleBased", "MinutesFromMaghribFajrIshaAlways"]);
        let pl = if is_nearest_lat(pol) { Some(r.range(-48.0, 48.0)) } else { None };
        p = p.with_policy(pol, pl);
        p.method = r.int(1, 8) as usize;
    }
    if r.chance(0.3) {
        p.hanafi = Some(r.chance(0.5));
    }
    // the base parameter set is itself non-default in half of the cases (offsets on every key, intervals, custom
    // angles): a parameter's documented effect must hold in combination with the others, not only from defaults
    if r.chance(0.5) {
        let mut m = [X(0.0); 7];
        for x in m.iter_mut() {
            *x = X(match r.int(0, 3) {
                0 => 0.0,
                1 => r.int(-90, 90) as f64,
                _ => r.range(-90.0, 90.0),
            });
        }
        p.minutes = Some(m);
    }
    if r.chance(0.25) {
        p.imsaak_int = Some(X(r.range(1.0, 30.0)));
    }
    if r.chance(0.12) && !matches!(kind, "fajr_angle") {
        p.fajr_int = Some(X(r.range(1.0, 120.0)));
    }
    if r.chance(0.12) && !matches!(kind, "isha_angle") {
        p.isha_int = Some(X(r.range(1.0, 120.0)));
    }
    if r.chance(0.25) {
        p.fajr_angle = Some(X(r.range(10.0, 20.0)));
        p.isha_angle = Some(X(r.range(10.0, 20.0)));
        p.imsaak_angle = Some(X(r.range(0.5, 3.0)));
    }
    let (mut key, mut value, mut value2) = (None, None, None);
    match kind {
        "minutes" => {
            key = Some(r.int(0, 6) as usize);
            value = Some(X(match r.int(0, 4) {
                0 => 90.0,
                1 => -90.0,
                2 => r.int(-90, 90) as f64,
                _ => r.range(-90.0, 90.0),
            }));
        }
        "isha_int" | "fajr_int" | "imsaak_int" => {
            value = Some(X(match r.int(0, 4) {
                0 => 1.0,
                1 => 120.0,
                2 => r.int(1, 120) as f64,
                _ => r.range(1.0, 120.0),
            }));
        }
        "fajr_angle" | "isha_angle" => value = Some(X(r.sign())),
        "weather" => {
            let w = gen::any_weather(r);
            value = Some(X(f64::from(w.pressure)));
            value2 = Some(X(f64::from(w.temperature)));
        }
        _ => {}
    }
    let base_weather = if !matches!(kind, "weather" | "weather_default") && r.chance(0.4) {
        let w = gen::any_weather(r);
        Some((X(f64::from(w.pressure)), X(f64::from(w.temperature))))
    } else {
        None
    };
    Case {
        site,
        date,
        p,
        kind: kind.into(),
        key,
        value,
        value2,
        base_weather,
    }
}

pub fn run(ctx: &Ctx, st: &mut Stats) {
    st.max_samples = 12;
    let n = ctx.quota(1_000_000, 60_000_000);
    let mut r = Rng::new(ctx.seed, 1201, ctx.shard);
    for k in 0..n {
        let c = gen_case(&mut r);
        check(ctx, st, &c);
        st.nontrivial_key(hash64(&format!("{:?}", c)));
        if k < 12 {
            st.sample(|| json!(c));
        }
    }
    // clock-boundary seeking: the same pairs at longitudes (adjacent f64 values and a few floats around them) where one
    // of the base run's times sits within an ulp of a displayed-second / rounding boundary: "equal" and "exactly that
    // many minutes" must hold there too (a difference of 1e-9 s between two routes only shows at such a point)
    let nb = ctx.quota(3_000, 150_000);
    let mut rb = Rng::new(ctx.seed, 1202, ctx.shard);
    for i in 0..nb {
        let mut c = gen_case(&mut rb);
        if i % 3 == 0 {
            c.kind = "weather_default".into();
            c.base_weather = None;
            c.key = None;
            c.value = None;
            c.value2 = None;
        }
        c.site.lon = X(c.site.lon.0.clamp(-179.0, 179.0));
        let p = c.p.build();
        let date = s2d(&c.date);
        let w = c.base_weather.map(|(a, b)| weather(a.0, b.0));
        let pr = if c.kind.starts_with("weather") { *rb.pick(&[Prayer::Shurooq, Prayer::Maghrib]) } else { *rb.pick(&SIX) };
        let unit = if c.p.mode == 0 { 1.0 } else { 60.0 };
        let Some((a, b)) = super::seek_clock_boundary(st, &p, c.site, date, w, pr, unit) else {
            st.count("clock_boundary_seeks.none_found");
            continue;
        };
        st.count(&format!("clock_boundary_seeks.{}", c.kind));
        for k in [0i64, -1, -2, -4, -9, 1, 2, 3, 5, 10] {
            let lon = if k <= 0 { super::nudge_ulps(a, k) } else { super::nudge_ulps(b, k - 1) };
            if !(-180.0..=180.0).contains(&lon) {
                continue;
            }
            let mut c2 = c.clone();
            c2.site.lon = X(lon);
            check(ctx, st, &c2);
            st.nontrivial_key(hash64(&format!("b{:?}", c2)));
        }
    }
    st.extra.insert("rule".into(), json!("seeded random pairs of executions differing in exactly one parameter (minute offset on one of the 7 keys, Isha/Fajr/Imsaak interval, Asr school, +-1 deg Fajr/Isha angle, weather, explicit default weather), half under policy None and half under other policies, |lat|<=62; every pair is judged; distinct by input hash"));
}
