//! C13 — day-to-day smoothness: second differences and daily change of every conventional time.
use super::call;
use crate::gen;
use crate::rec::{Ctx, Stats};
use crate::util::*;
use serde::{Deserialize, Serialize};
use serde_json::json;

/// Case: a run of consecutive dates [start, start+len) at one site; every interior triple is checked.
#[derive(Serialize, Deserialize, Clone, Debug)]
pub struct Case {
    pub site: Site,
    pub method: usize,
    pub start: String,
    pub len: u32,
}

const SEAM_S: f64 = 600.0;

fn limit(pr: Prayer, lat: f64) -> Option<f64> {
    let a = lat.abs();
    match pr {
        Prayer::Dhuhr => Some(5.0),
        Prayer::Shurooq | Prayer::Maghrib => Some(8.0),
        Prayer::Asr => {
            if (25.0..=45.0).contains(&a) {
                Some(8.0)
            } else {
                None
            }
        }
        Prayer::Fajr | Prayer::Isha => {
            if a <= 40.0 {
                Some(12.0)
            } else {
                None
            }
        }
        _ => None,
    }
}

pub fn check(_ctx: &Ctx, st: &mut Stats, c: &Case) {
    let mut p = Params::new(METHODS[c.method]);
    p.round_seconds = RoundSeconds::None;
    p.extreme_latitude_method = ExtremeLatitudeMethod::None;
    let l = c.site.loc();
    let lat = c.site.lat.0;
    let start = ce(s2d(&c.start));
    // ring of the last three results (seconds per prayer, None if invalid/panic)
    let mut win: [[Option<f64>; 6]; 3] = [[None; 6]; 3];
    for i in 0..c.len as i32 {
        let d = from_ce(start + i);
        let cur: [Option<f64>; 6] = match call(st, &p, l, d, None) {
            Ok(r) => {
                let mut a = [None; 6];
                for (k, pr) in SIX.iter().enumerate() {
                    a[k] = r.get(pr).and_then(|x| x.ok()).map(|t| secs(&t));
                }
                a
            }
            Err(_) => {
                st.count("panicked_cannot_decide(see C07)");
                [None; 6]
            }
        };
        win[0] = win[1];
        win[1] = win[2];
        win[2] = cur;
        if i < 2 {
            continue;
        }
        for (k, pr) in SIX.iter().enumerate() {
            let Some(lim) = limit(*pr, lat) else { continue };
            let (Some(a), Some(b), Some(cc)) = (win[0][k], win[1][k], win[2][k]) else {
                st.count("triple_with_missing_time");
                continue;
            };
            if near_midnight(a, SEAM_S) || near_midnight(b, SEAM_S) || near_midnight(cc, SEAM_S) {
                st.count("seam_triples");
                continue;
            }
            let d1 = off(b, a);
            let d2 = off(cc, b);
            let sd = d2 - d1;
            st.decided += 1;
            let name = match pr {
                Prayer::Dhuhr => "second_diff_s.Dhuhr",
                Prayer::Shurooq | Prayer::Maghrib => "second_diff_s.Shurooq/Maghrib",
                Prayer::Asr => "second_diff_s.Asr",
                _ => "second_diff_s.Fajr/Isha",
            };
            let mid = from_ce(start + i - 1);
            st.margin(name, sd, lim, || json!({"site": c.site, "method": c.method, "middle_date": d2s(mid), "prayer": format!("{pr:?}"), "clocks_s": [a, b, cc]}));
            st.margin("daily_change_s", d2, 240.0, || json!({"site": c.site, "method": c.method, "date": d2s(mid), "prayer": format!("{pr:?}"), "clocks_s": [b, cc]}));
            if sd.abs() > lim || d2.abs() >= 240.0 || d1.abs() >= 240.0 {
                let vc = Case {
                    site: c.site,
                    method: c.method,
                    start: d2s(from_ce(start + i - 2)),
                    len: 3,
                };
                let clause = if sd.abs() > lim { "second_difference" } else { "daily_change" };
                st.violate(
                    clause,
                    &vc,
                    json!({"prayer": format!("{pr:?}"), "clocks_s": [a, b, cc], "first_diffs_s": [d1, d2], "second_diff_s": sd, "limit_s": lim, "middle_date": d2s(mid), "month": chrono::Datelike::month(&mid)}),
                );
            }
        }
    }
}

fn site_for(r: &mut Rng) -> Site {
    let lo = gen::any_lon(r);
    let la = match r.int(0, 9) {
        0 => 45.0 * r.sign(),
        1 => 40.0 * r.sign(),
        2 => 25.0 * r.sign(),
        3 => 0.0,
        _ => r.range(-45.0, 45.0),
    };
    Site::new(la, lo, gen::any_elev(r), gen::gmt_near(r, lo, 2.0))
}

pub fn run(ctx: &Ctx, st: &mut Stats) {
    if ctx.build.contains("config") {
        // (single-threaded configuration shards only: the environment is changed) the machine's "today" moves on while
        // the process lives — a long-running service, or its zone setting changes. Windows of consecutive dates around
        // today are evaluated before and after the local date has advanced by switching TZ between UTC-12 and UTC+14.
        let saved = std::env::var("TZ").ok();
        let mut rt = Rng::new(ctx.seed, 133, ctx.shard);
        // (chrono re-reads the zone setting at most once per second: each switch is followed by a 1.1 s pause)
        let pause = || std::thread::sleep(std::time::Duration::from_millis(1100));
        for _ in 0..2 {
            let la = rt.range(-45.0, 45.0);
            let lon = rt.range(-178.0, 178.0);
            let site = Site::new(la, lon, 0.0, (lon / 15.0).round().clamp(-12.0, 12.0));
            let method = *rt.pick(&ANGLE_METHODS);
            std::env::set_var("TZ", "UTC+12");
            pause();
            let today_a = chrono::Local::now().date_naive();
            check(ctx, st, &Case { site, method, start: d2s(from_ce(ce(today_a) - 3)), len: 5 });
            std::env::set_var("TZ", "UTC-14");
            pause();
            let today_b = chrono::Local::now().date_naive();
            check(ctx, st, &Case { site, method, start: d2s(from_ce(ce(today_b) - 3)), len: 6 });
            if today_b != today_a {
                st.count("windows_around_today_evaluated_before_and_after_the_local_date_advanced");
            }
        }
        match saved {
            Some(v) => std::env::set_var("TZ", v),
            None => std::env::remove_var("TZ"),
        }
    }
    let nsites = ((ctx.pick(16, 640) as f64 * ctx.scale).ceil() as u64).max(1);
    let corpus = gen::corpus_sites(45.0);
    let total = (day_hi() - day_lo() + 1) as u32;
    for i in 0..nsites {
        if !ctx.mine(i) {
            continue;
        }
        let mut site = if i % 4 == 0 {
            corpus[((i / 4 + ctx.seed * 5) as usize) % corpus.len()]
        } else {
            site_for(&mut Rng::new(ctx.seed, 131, i))
        };
        // property quantifies over gmt within +-2 h of lon/15
        if (site.gmt.0 - site.lon.0 / 15.0).abs() > 2.0 {
            site.gmt = X((site.lon.0 / 15.0).round().clamp(-12.0, 12.0));
        }
        let method = ANGLE_METHODS[((i + ctx.seed) % 6) as usize];
        let c = Case {
            site,
            method,
            start: "1600-01-01".into(),
            len: total,
        };
        st.sample(|| json!({"site": site, "method": format!("{:?}", METHODS[method]), "dates": "every consecutive triple 1600-01-01..2399-12-31"}));
        check(ctx, st, &c);
        // order independence: a 400-day window of the same site in DESCENDING order, then ascending again; every
        // date must give the same result in all three passes
        {
            let mut p = Params::new(METHODS[method]);
            p.round_seconds = RoundSeconds::None;
            p.extreme_latitude_method = ExtremeLatitudeMethod::None;
            let w0 = day_lo() + ((i * 7919 + ctx.seed * 104_729) % 290_000) as i32;
            let mut down: Vec<Option<Res>> = vec![];
            for k in (0..400).rev() {
                down.push(call(st, &p, site.loc(), from_ce(w0 + k), None).ok());
            }
            down.reverse();
            for k in 0..400 {
                let up = call(st, &p, site.loc(), from_ce(w0 + k), None).ok();
                if up != down[k as usize] {
                    st.violate("result_depends_on_call_history", &Case { site, method, start: d2s(from_ce(w0 + k)), len: 1 }, json!({"why": "the same date gives different results in a descending and in an ascending sweep", "descending": down[k as usize].as_ref().map(res_json), "ascending": up.as_ref().map(res_json)}));
                }
            }
            st.count("order_independence_windows(400 days down, then up)");
        }
        st.count(&format!("sweep_sites.lat_band.{}", lat_band(site.lat.0)));
        st.count("sweep_sites");
        st.nontrivial_by_construction((total - 2) as u64);
    }
    // RA-wrap seeking: the reference ephemeris locates, for a March date, the GMT offset at which the Sun's right
    // ascension at local midnight crosses 360 -> 0; a fine grid of offsets around it (RA steps of ~2e-4 deg) puts
    // one of the library's three interpolation points within a hair of the wrap, on either side
    let nseek = ctx.quota(160, 8_000);
    let mut rs = Rng::new(ctx.seed, 132, ctx.shard);
    let mut done = 0u64;
    let mut tries = 0u64;
    while done < nseek && tries < nseek * 40 {
        tries += 1;
        let y = rs.int(1600, 2399) as i32;
        let date = ymd(y, 3, rs.int(18, 23) as u32);
        let lon = rs.range(-178.0, 178.0);
        let nom = lon / 15.0;
        let (glo, ghi) = ((nom - 2.0).max(-12.0), (nom + 2.0).min(12.0));
        let Some(g0) = crate::oracle::ra_wrap_gmt(date, glo, ghi) else { continue };
        done += 1;
        let la = rs.range(-45.0, 45.0);
        let method = *rs.pick(&ANGLE_METHODS);
        let el = gen::any_elev(&mut rs);
        for k in -100..=100 {
            let g = g0 + k as f64 * 0.004;
            if !(-12.0..=12.0).contains(&g) || (g - nom).abs() > 2.0 {
                continue;
            }
            let c = Case { site: Site::new(la, lon, el, g), method, start: d2s(from_ce(ce(date) - 2)), len: 5 };
            check(ctx, st, &c);
        }
        st.count("ra_wrap_seeks(201 GMT offsets around the wrap, 5 dates each)");
        st.nontrivial_by_construction(3 * 201);
    }
    st.extra.insert("rule".into(), json!("every run of three consecutive dates 1600..2399 per sweep site (site-triples distinct by construction); decided = (triple, prayer) pairs with all three times present and off the midnight seam"));
}
