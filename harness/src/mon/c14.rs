//! C14 — range results are the per-day results for exactly the days in the range; num_days; partition.
use super::guarded;
use crate::gen;
use crate::rec::{Ctx, Stats};
use crate::util::*;
use chrono::NaiveDate;
use serde::{Deserialize, Serialize};
use serde_json::{json, Value};
use std::collections::BTreeMap;

#[derive(Serialize, Deserialize, Clone, Debug)]
pub struct Case {
    pub start: String,
    pub end: String,
    /// part counts to try with `partition`
    pub parts: Vec<usize>,
    /// run the sequential range API as well (site + method) — reversed/empty ranges go through a guarded subprocess
    pub rng: Option<(Site, usize, bool)>,
    /// custom parameter set for the range API (overrides method/policy of `rng` when present)
    #[serde(default)]
    pub custom: Option<PSpec>,
}

fn model_days(s: NaiveDate, e: NaiveDate) -> i64 {
    ((ce(e) - ce(s)) as i64 + 1).max(0)
}

fn params_for(method: usize, default_policy: bool) -> Params {
    let mut p = Params::new(METHODS[method]);
    if !default_policy {
        p.extreme_latitude_method = ExtremeLatitudeMethod::None;
    }
    p
}

/// compare the sequential range API with the per-day API; returns Err(detail) on mismatch
fn rng_check(st: Option<&mut Stats>, s: NaiveDate, e: NaiveDate, site: Site, method: usize, defpol: bool, custom: &Option<PSpec>) -> Result<u64, Value> {
    let p = match custom {
        Some(ps) => ps.build(),
        None => params_for(method, defpol),
    };
    let l = site.loc();
    let dr = DateRange::from(s..=e);
    if ce(s) % 3 == 0 {
        // typical flow: a single-date call with explicit weather for the first date, then the range, on one thread
        let _ = std::panic::catch_unwind(std::panic::AssertUnwindSafe(|| prayer_times_dt(&p, l, s, Some(weather(870.0, -25.0)))));
    }
    let got = prayer_times_dt_rng(&p, l, &dr);
    let n = model_days(s, e);
    let mut want: BTreeMap<NaiveDate, Res> = BTreeMap::new();
    for i in 0..n {
        let d = from_ce(ce(s) + i as i32);
        want.insert(d, prayer_times_dt(&p, l, d, None));
    }
    if let Some(st) = st {
        st.evaluations += 1 + n as u64;
    }
    if got.len() as i64 != n {
        return Err(json!({"why": "number of entries", "got": got.len(), "want": n}));
    }
    let gk: Vec<&NaiveDate> = got.keys().collect();
    let wk: Vec<&NaiveDate> = want.keys().collect();
    if gk != wk {
        return Err(json!({"why": "dates differ", "first_got": gk.first().map(|d| d2s(**d)), "first_want": wk.first().map(|d| d2s(**d)), "last_got": gk.last().map(|d| d2s(**d)), "last_want": wk.last().map(|d| d2s(**d))}));
    }
    for (d, r) in &got {
        if &want[d] != r {
            return Err(json!({"why": "value differs from the single-date API", "date": d2s(*d), "range_api": res_json(r), "single_date_api": res_json(&want[d])}));
        }
    }
    if ce(s) % 4 == 1 && n <= 400 {
        // the other range entry point with a parallelism threshold that keeps it on one thread: callers pass "never in
        // parallel" as a very large number, not only as a value near the range length
        let thr = [usize::MAX, usize::MAX / 2 + 1, usize::MAX / 16, 1usize << 40, 2001][(ce(e) as usize) % 5];
        let blk = prayer_times_dt_rng_block(&p, l, &dr, thr);
        if blk != want {
            return Err(json!({"why": "block range API (threshold = never in parallel) differs from the single-date API", "threshold": thr.to_string(), "entries": blk.len(), "want": n}));
        }
    }
    Ok(n as u64)
}

/// subprocess entry: exit 0 = equal, 10 = mismatch (detail on stdout), 11 = panic
pub fn one(case: &Value) -> i32 {
    let c: Case = match serde_json::from_value(case.clone()) {
        Ok(c) => c,
        Err(_) => return 2,
    };
    let (site, method, defpol) = c.rng.unwrap();
    match guarded(|| rng_check(None, s2d(&c.start), s2d(&c.end), site, method, defpol, &c.custom)) {
        Ok(Ok(_)) => 0,
        Ok(Err(d)) => {
            println!("{}", d);
            10
        }
        Err(pm) => {
            println!("{}", json!({"panic": pm}));
            11
        }
    }
}

pub fn check(ctx: &Ctx, st: &mut Stats, c: &Case) {
    st.begin_case(ctx, c);
    let (s, e) = (s2d(&c.start), s2d(&c.end));
    let dr = DateRange::from(s..=e);
    let n = model_days(s, e);
    // route diversity: the same range rebuilt through serde (the CLI's parameter files take this route)
    match guarded(|| serde_json::to_string(&dr).ok().and_then(|t| serde_json::from_str::<DateRange>(&t).ok())) {
        Ok(Some(dr2)) => {
            st.count("serde_roundtrip_ranges");
            st.evaluations += 1;
            let same = dr2 == dr && guarded(|| dr2.num_days()).ok() == guarded(|| dr.num_days()).ok() && dr2.start_date() == dr.start_date() && dr2.end_date() == dr.end_date();
            let parts_same = c.parts.iter().take(3).all(|k| guarded(|| dr2.partition(*k)).ok() == guarded(|| dr.partition(*k)).ok());
            if !same || !parts_same {
                st.violate("deserialized_range_differs", c, json!({"num_days_from": guarded(|| dr.num_days()).ok().map(|x| x.to_string()), "num_days_deserialized": guarded(|| dr2.num_days()).ok().map(|x| x.to_string())}));
            }
        }
        _ => st.violate("range_serde_roundtrip_fails", c, json!({})),
    }
    let span = (ce(e) - ce(s)) as i64 + 1;
    st.decided += 1;
    st.count(if span <= 0 { "ranges.empty_or_reversed" } else { "ranges.nonempty" });
    // ---- num_days
    st.evaluations += 1;
    match guarded(|| dr.num_days()) {
        Ok(got) => {
            if got as u128 != n as u128 {
                st.violate("num_days", c, json!({"got": got.to_string(), "want": n, "span": span}));
            }
        }
        Err(pm) => st.violate("num_days_panic", c, json!({"panic": pm, "span": span})),
    }
    // ---- partition
    for &k in &c.parts {
        st.evaluations += 1;
        st.count("partition_calls");
        let parts = match guarded(|| dr.partition(k)) {
            Ok(p) => p,
            Err(pm) => {
                st.violate("partition_panic", c, json!({"k": k, "panic": pm, "span": span}));
                continue;
            }
        };
        let pj = || -> Value { parts.iter().take(70).map(|x| json!([d2s(*x.start_date()), d2s(*x.end_date())])).collect() };
        if n == 0 {
            // union must be empty: every piece (if any) must itself be empty
            if parts.iter().any(|x| x.end_date() >= x.start_date()) {
                st.violate("partition_of_empty_range_not_empty", c, json!({"k": k, "pieces": pj()}));
            }
            continue;
        }
        if k >= 2 && (k as i64) < n {
            st.count("partition.fewer_parts_than_days");
        } else if k as i64 == n {
            st.count("partition.parts_equal_days");
        } else if k as i64 > n {
            st.count("partition.more_parts_than_days");
        }
        let mut bad: Option<String> = None;
        if parts.is_empty() {
            bad = Some("no pieces for a non-empty range".into());
        } else if parts.len() > k.max(1) {
            bad = Some(format!("{} pieces for k={}", parts.len(), k));
        } else {
            if *parts[0].start_date() != s {
                bad = Some("first piece does not start at the range start".into());
            }
            if *parts.last().unwrap().end_date() != e {
                bad = Some("last piece does not end at the range end".into());
            }
            for (i, x) in parts.iter().enumerate() {
                if x.end_date() < x.start_date() {
                    bad = Some(format!("piece {i} is empty"));
                }
                if i > 0 && ce(*x.start_date()) != ce(*parts[i - 1].end_date()) + 1 {
                    bad = Some(format!("piece {i} is not contiguous with its predecessor (gap or overlap)"));
                }
            }
        }
        if let Some(why) = bad {
            st.violate("partition", c, json!({"k": k, "why": why, "days": n, "pieces": pj()}));
        }
    }
    // ---- sequential range API
    if let Some((site, method, defpol)) = c.rng {
        st.count("rng_calls");
        if span >= 1 {
            match guarded(|| rng_check(None, s, e, site, method, defpol, &c.custom)) {
                Ok(Ok(days)) => {
                    st.evaluations += 1 + days;
                    st.add("rng_days_compared", days);
                }
                Ok(Err(d)) => st.violate("range_api_differs", c, d),
                Err(pm) => st.violate("range_api_panic", c, json!({"panic": pm})),
            }
        } else {
            // guarded subprocess: a wrapped day count iterates to the end of the calendar
            st.count("rng_calls.guarded_subprocess");
            st.evaluations += 1;
            let exe = std::env::current_exe().unwrap();
            let arg = serde_json::to_string(c).unwrap();
            let out = std::process::Command::new("sh")
                .arg("-c")
                .arg("ulimit -v 3000000; ulimit -t 20; exec \"$0\" one C14 \"$1\"")
                .arg(exe)
                .arg(arg)
                .output();
            match out {
                Ok(o) => {
                    let code = o.status.code();
                    let text = String::from_utf8_lossy(&o.stdout).to_string();
                    match code {
                        Some(0) => {}
                        Some(10) => st.violate("range_api_differs", c, serde_json::from_str(&text).unwrap_or(json!({"raw": text}))),
                        Some(11) => st.violate("range_api_panic", c, serde_json::from_str(&text).unwrap_or(json!({"raw": text}))),
                        other => st.violate(
                            "range_api_unbounded",
                            c,
                            json!({"why": "did not return within 20 CPU-seconds / 3 GB (killed)", "exit": format!("{:?}", other), "status": format!("{:?}", o.status), "stderr_tail": String::from_utf8_lossy(&o.stderr).chars().rev().take(200).collect::<String>().chars().rev().collect::<String>(), "span": span}),
                        ),
                    }
                }
                Err(e) => st.note(&format!("could not spawn guarded subprocess: {e}")),
            }
        }
    }
}

fn hostile_starts() -> Vec<NaiveDate> {
    // the range API has no date restriction of its own: calendar-reform days, the first and last years of the Hijri domain
    let mut v = vec![ymd(1582, 10, 1), ymd(1582, 10, 10), ymd(1582, 10, 14), ymd(1582, 10, 15), ymd(1, 1, 1), ymd(9999, 10, 20), ymd(1752, 9, 1)];
    for y in [1600, 1899, 1900, 2000, 2023, 2024, 2100, 2399] {
        for (m, d) in [(1, 1), (1, 31), (2, 28), (3, 1), (12, 31), (12, 1), (6, 30)] {
            v.push(ymd(y, m, d));
        }
        if let Some(d) = NaiveDate::from_ymd_opt(y, 2, 29) {
            v.push(d);
        }
    }
    v
}

pub fn run(ctx: &Ctx, st: &mut Stats) {
    let all_parts: Vec<usize> = (0..=64).collect();
    let mut idx = 0u64;
    let mut r = Rng::new(ctx.seed, 1401, ctx.shard);
    // exhaustive: hostile starts x spans -5..=70 x k 0..=64
    for s in hostile_starts() {
        for span in -5i64..=70 {
            idx += 1;
            if !ctx.mine(idx) {
                continue;
            }
            let e = from_ce(ce(s) + span as i32 - 1);
            if ce(e) > ce(ymd(9999, 12, 31)) {
                continue;
            }
            // the range API itself on a rotating subset (all reversed/empty ones on a thinner subset: each costs a process)
            let rng = if span >= 1 { idx % 3 == 0 } else { idx % 16 == ctx.seed % 16 || ctx.thorough };
            let site = Site::new(r.range(-60.0, 60.0), r.range(-180.0, 180.0), 0.0, 0.0);
            let c = Case {
                start: d2s(s),
                end: d2s(e),
                parts: all_parts.clone(),
                rng: if rng { Some((site, r.int(0, 8) as usize, r.chance(0.5))) } else { None },
                custom: None,
            };
            check(ctx, st, &c);
            st.nontrivial_key(hash64(&format!("{}{}", c.start, c.end)));
            if idx < 40 && span == -1 {
                st.sample(|| json!(c));
            }
        }
    }
    // seeded random: spans to 2000 days, k to 64, random starts 1600..2394
    let n = ctx.quota(600, 40_000);
    for k in 0..n {
        let s = from_ce(r.int(day_lo() as i64, day_hi() as i64 - 2100) as i32);
        let span = match r.int(0, 9) {
            0 => r.int(-2000, 0),
            1 => r.int(1, 64),
            2 => r.int(64, 130),
            _ => r.int(1, 2000),
        };
        let e = from_ce(ce(s) + span as i32 - 1);
        let parts: Vec<usize> = (0..6).map(|_| r.int(0, 64) as usize).chain([span.max(0) as usize, (span.max(1) - 1) as usize, span.max(0) as usize + 1].into_iter().filter(|x| *x <= 64)).collect();
        let lon = gen::any_lon(&mut r);
        let site = Site::new(gen::lat_within(&mut r, 66.0), lon, 0.0, gen::gmt_near(&mut r, lon, 2.0));
        let rng = span >= 1 && k % 2 == 0;
        let c = Case {
            start: d2s(s),
            end: d2s(e),
            parts,
            rng: if rng { Some((site, r.int(0, 8) as usize, r.chance(0.3))) } else { None },
            // a third of the range-API cases use a fully custom parameter set (offsets, intervals, angles, policy)
            custom: if rng && k % 3 == 0 {
                let mut ps = crate::mon::c07::gen_case(&mut r).p;
                ps.mode = r.int(0, 3) as usize;
                Some(ps)
            } else {
                None
            },
        };
        check(ctx, st, &c);
        st.nontrivial_key(hash64(&format!("{}{}", c.start, c.end)));
        if k < 2 {
            st.sample(|| json!(c));
        }
    }
    // history diversity: month-after-month style chains — a range call followed, on the same thread, by a range
    // that starts on (or right after) the previous range's last date for a DIFFERENT location
    let nch = ctx.quota(400, 20_000);
    for kk in 0..nch {
        if kk % 97 == 5 {
            // fault injection: range calls that panic (a Params value with a missing key, calendar edge), caught
            super::out_of_domain_calls(3);
            st.count("fault_injection.out_of_domain_call_groups");
        }
        let s0 = from_ce(r.int(day_lo() as i64, day_hi() as i64 - 400) as i32);
        let len1 = r.int(1, 60);
        let e0 = from_ce(ce(s0) + len1 as i32 - 1);
        let lon = gen::any_lon(&mut r);
        let site1 = Site::new(gen::lat_within(&mut r, 60.0), lon, 0.0, gen::gmt_near(&mut r, lon, 2.0));
        let mut site2 = site1;
        match r.int(0, 2) {
            0 => site2.gmt = X(if site1.gmt.0 + 1.0 <= 12.0 { site1.gmt.0 + 1.0 } else { site1.gmt.0 - 1.0 }),
            1 => site2.lat = X(-site1.lat.0),
            _ => {
                let lon2 = gen::any_lon(&mut r);
                site2 = Site::new(gen::lat_within(&mut r, 60.0), lon2, 0.0, gen::gmt_near(&mut r, lon2, 2.0));
            }
        }
        let method = r.int(0, 8) as usize;
        let p = params_for(method, false);
        let _ = guarded(|| prayer_times_dt_rng(&p, site1.loc(), &DateRange::from(s0..=e0)));
        st.evaluations += 1;
        let s1 = from_ce(ce(e0) + r.int(0, 1) as i32);
        let e1 = from_ce(ce(s1) + r.int(1, 40) as i32 - 1);
        let c = Case { start: d2s(s1), end: d2s(e1), parts: vec![2, 3], rng: Some((site2, method, false)), custom: None };
        check(ctx, st, &c);
        st.count("chained_range_calls");
        st.nontrivial_key(hash64(&format!("ch{}{}{:?}", c.start, c.end, site2)));
    }
    // short ranges x real-valued GMT offsets: the range route may derive a date's Julian day differently from the
    // single-date route (base + k instead of a fresh conversion); the two agree for "round" offsets and differ in the
    // last bit for a few real ones. 2-4 day ranges across every day-of-month, month and year boundary, each compared with
    // the single-date API; then, on the same thread, the day AFTER the range for a site in another zone, compared with
    // the same call made on a fresh thread (state the range route leaves behind must not leak into later calls)
    {
        let ns = ctx.quota(240_000, 12_000_000);
        let mut rs = Rng::new(ctx.seed, 1402, ctx.shard);
        for i in 0..ns {
            let lon = rs.range(-180.0, 180.0);
            let gmt = match i % 4 {
                0 => rs.range(-12.0, 12.0),
                1 => (lon / 15.0).clamp(-12.0, 12.0),
                2 => (rs.range(-12.0, 12.0) * 1000.0).round() / 1000.0,
                _ => (lon / 15.0 + rs.range(-1.0, 1.0)).clamp(-12.0, 12.0),
            };
            let site = Site::new(rs.range(-60.0, 60.0), lon, 0.0, gmt);
            let s = from_ce(rs.int(day_lo() as i64, day_hi() as i64 - 10) as i32);
            let e = from_ce(ce(s) + rs.int(1, 3) as i32);
            let method = rs.int(1, 8) as usize;
            let c = Case { start: d2s(s), end: d2s(e), parts: vec![], rng: Some((site, method, false)), custom: None };
            st.tick();
            match guarded(|| rng_check(None, s, e, site, method, false, &None)) {
                Ok(Ok(days)) => {
                    st.evaluations += 1 + days;
                    st.decided += 1;
                }
                Ok(Err(d)) => st.violate("range_api_differs", &c, d),
                Err(pm) => st.violate("range_api_panic", &c, json!({"panic": pm})),
            }
            if i % 8 == 0 {
                let p = params_for(method, false);
                let other = Site::new(site.lat.0, site.lon.0, 0.0, if gmt > 0.0 { gmt - rs.range(0.5, 6.0) } else { gmt + rs.range(0.5, 6.0) });
                let next = from_ce(ce(e) + 1);
                let here = guarded(|| prayer_times_dt(&p, other.loc(), next, None));
                let fresh = std::thread::spawn(move || guarded(|| prayer_times_dt(&p, other.loc(), next, None))).join();
                st.evaluations += 2;
                if let (Ok(a), Ok(Ok(b))) = (&here, &fresh) {
                    if a != b {
                        st.violate("range_api_differs", &c, json!({"why": "a single-date call made right after the range call (next day, another zone, same thread) differs from the same call on a fresh thread", "site_of_the_later_call": other, "date": d2s(next), "after_range_call": res_json(a), "fresh_thread": res_json(b)}));
                    }
                }
                st.count("single_date_calls_right_after_a_range_call(next day, other zone)");
            }
        }
        st.add("short_ranges_with_real_valued_offsets", ns);
    }
    st.extra.insert("rule".into(), json!("exhaustive: 60+ hostile start dates x spans -5..70 x part counts 0..64 (num_days and partition against the day-count model; the sequential range API against the single-date API on a rotating subset, reversed/empty ranges in a guarded subprocess with 20 CPU-s / 3 GB limits); seeded random: spans -2000..2000, part counts 0..64; every range is non-trivial (distinct (start,end) by hash)"));
}
