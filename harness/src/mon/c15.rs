//! C15 — parallel range computation equals the sequential one under every schedule, and terminates.
//! Observations: (1) returned map vs sequential API; (2) hook event log checked offline (conservation,
//! exactly-once, tiling, ordering); (3) bounded progress with a logical deadlock criterion.
use super::LAST_PANIC;
use crate::gen;
use crate::rec::{Ctx, Stats};
use crate::util::*;
use islamic_prayer_times::verif::{self, Event};
use serde::{Deserialize, Serialize};
use serde_json::{json, Value};
use std::collections::{BTreeMap, HashSet};
use std::panic::{catch_unwind, AssertUnwindSafe};
use std::sync::mpsc;
use std::time::{Duration, Instant};

#[derive(Serialize, Deserialize, Clone, Debug)]
pub struct Case {
    pub site: Site,
    pub method: usize,
    pub default_policy: bool,
    pub start: String,
    pub days: i64,
    pub workers: usize,
    pub threshold: usize,
    /// perturbation seed (0 = no perturbation) and max sleep in microseconds
    pub pseed: u64,
    pub max_sleep_us: u64,
    /// number of runs with pseed, pseed+1, ...
    pub repeats: u32,
}

type RangeMap = BTreeMap<chrono::NaiveDate, Res>;

fn ev_json(log: &[Event]) -> Value {
    log.iter()
        .take(400)
        .map(|e| json!([e.seq, format!("{:?}", e.role), e.point, e.first, e.last, e.entries, format!("{:x}", e.thread & 0xffff)]))
        .collect()
}

/// all threads of this process other than the caller are blocked (state S) — /proc/self/task/*/stat
fn all_other_threads_sleeping() -> bool {
    let me: u64 = std::fs::read_link("/proc/thread-self")
        .ok()
        .and_then(|p| p.file_name().map(|f| f.to_string_lossy().parse::<u64>().unwrap_or(0)))
        .unwrap_or(0);
    let Ok(rd) = std::fs::read_dir("/proc/self/task") else { return false };
    let mut others = 0;
    for ent in rd.flatten() {
        let tid: u64 = ent.file_name().to_string_lossy().parse().unwrap_or(0);
        if tid == me {
            continue;
        }
        let Ok(s) = std::fs::read_to_string(ent.path().join("stat")) else { continue };
        let state = s.rsplit_once(')').map(|x| x.1.trim().chars().next().unwrap_or('?')).unwrap_or('?');
        others += 1;
        if state != 'S' {
            return false;
        }
    }
    others > 0
}

/// offline checker over one run's event log; returns list of (clause, detail)
pub fn check_log(log: &[Event], start_ce: i32, days: i64, workers: usize) -> Vec<(String, Value)> {
    let mut v = vec![];
    let mut bad = |c: &str, d: Value| v.push((c.to_string(), d));
    let spawns: Vec<&Event> = log.iter().filter(|e| e.point == "spawn").collect();
    let sends: Vec<&Event> = log.iter().filter(|e| e.point == "before_send").collect();
    let after: Vec<&Event> = log.iter().filter(|e| e.point == "after_send").collect();
    let recvs: Vec<&Event> = log.iter().filter(|e| e.point == "recv").collect();
    let wstarts: Vec<&Event> = log.iter().filter(|e| e.point == "worker_start").collect();
    let cend: Vec<&Event> = log.iter().filter(|e| e.point == "collector_end").collect();
    // partitions tile the range
    let mut parts: Vec<(i32, i32, usize)> = spawns.iter().map(|e| (e.first, e.last, e.entries)).collect();
    parts.sort();
    if parts.len() > workers.max(1) {
        bad("log.more_partitions_than_workers", json!({"partitions": parts.len(), "workers": workers}));
    }
    let mut next = start_ce;
    for (a, b, n) in &parts {
        if *a != next || *b < *a || (*b - *a + 1) as usize != *n {
            bad("log.partitions_do_not_tile_the_range", json!({"partitions": format!("{parts:?}"), "range_start": start_ce, "days": days}));
            break;
        }
        next = *b + 1;
    }
    if (next - start_ce) as i64 != days {
        bad("log.partitions_do_not_tile_the_range", json!({"covered_days": next - start_ce, "days": days}));
    }
    // exactly one worker_start / before_send / after_send per partition; sent dates are exactly the partition
    if wstarts.len() != parts.len() || sends.len() != parts.len() || after.len() != parts.len() {
        bad("log.send_count", json!({"partitions": parts.len(), "worker_starts": wstarts.len(), "sends": sends.len(), "sends_completed": after.len()}));
    }
    let mut sent_dates: Vec<i32> = vec![];
    for s in &sends {
        sent_dates.extend(&s.dates);
        if !parts.contains(&(s.first, s.last, s.entries)) {
            bad("log.sent_partial_is_not_a_partition", json!({"first": s.first, "last": s.last, "entries": s.entries}));
        }
        let want: Vec<i32> = (s.first..=s.last).collect();
        if s.entries > 0 && s.dates != want {
            bad("log.sent_partial_has_wrong_dates", json!({"first": s.first, "last": s.last, "entries": s.entries}));
        }
    }
    // conservation + exactly-once between producer and consumer events
    let mut recv_dates: Vec<i32> = vec![];
    for r in &recvs {
        recv_dates.extend(&r.dates);
    }
    let sum_sent: usize = sends.iter().map(|e| e.entries).sum();
    let sum_recv: usize = recvs.iter().map(|e| e.entries).sum();
    if sum_sent as i64 != days || sum_recv as i64 != days {
        bad("log.conservation", json!({"entries_sent": sum_sent, "entries_received": sum_recv, "days": days}));
    }
    let mut sd = sent_dates.clone();
    sd.sort();
    let mut rd = recv_dates.clone();
    rd.sort();
    if sd != rd {
        bad("log.received_differs_from_sent", json!({"sent": sd.len(), "received": rd.len()}));
    }
    let uniq: HashSet<i32> = rd.iter().copied().collect();
    if uniq.len() != rd.len() {
        bad("log.date_received_more_than_once", json!({"received": rd.len(), "distinct": uniq.len()}));
    }
    // ordering: collector ends exactly once, after every send completed and after main dropped its sender
    if cend.len() != 1 {
        bad("log.collector_end_count", json!({"count": cend.len()}));
    } else {
        let ce = cend[0];
        if ce.entries as i64 != days {
            bad("log.collector_result_size", json!({"entries": ce.entries, "days": days}));
        }
        for e in log {
            let must_precede = matches!(e.point, "before_send" | "after_send" | "recv" | "before_drop" | "spawn" | "worker_start");
            if must_precede && e.seq > ce.seq {
                bad("log.event_after_collector_end", json!({"event": e.point, "seq": e.seq, "collector_end_seq": ce.seq}));
                break;
            }
        }
    }
    v
}

pub struct RunOut {
    pub deadlocked: bool,
}

fn one_run(st: &mut Stats, c: &Case, pseed: u64, sigs: &mut HashSet<u64>, perms: &mut HashSet<u64>) -> RunOut {
    let mut p = Params::new(METHODS[c.method]);
    if !c.default_policy {
        p.extreme_latitude_method = ExtremeLatitudeMethod::None;
    }
    let l = c.site.loc();
    let s = s2d(&c.start);
    let e = from_ce(ce(s) + c.days as i32 - 1);
    let dr = DateRange::from(s..=e);
    if pseed % 4 == 1 && c.days > 0 {
        // typical flow: a single-date call (with explicit weather) for the first date, then the range, on one thread
        let _ = catch_unwind(AssertUnwindSafe(|| prayer_times_dt(&p, l, s, Some(weather(870.0, -25.0)))));
    }
    // (a run that holds the std locks computes its sequential reference AFTER the parallel call: a once-per-process
    // action of the library must get the chance to happen inside the parallel call, under the held locks)
    let hold_std_locks = pseed % 8 == 3;
    let expected_before: Option<RangeMap> = if hold_std_locks { None } else { Some(prayer_times_dt_rng(&p, l, &dr)) };
    st.evaluations += 1;
    st.tick(); // progress per run (a case may hold dozens of repetitions of a 6000-day range)
    verif::set_parallelism_override(c.workers);
    verif::set_perturbation(pseed, c.max_sleep_us);
    verif::start_recording();
    let (tx, rx) = mpsc::channel();
    let (p2, dr2, thr) = (p.clone(), dr.clone(), c.threshold);
    let t0 = Instant::now();
    // caller context: in one run out of eight the calling thread holds the process's stderr and stdout locks across the
    // call (an application in the middle of printing a report); workers must not need either to finish
    if hold_std_locks {
        st.count("runs_with_caller_holding_stderr_and_stdout_locks");
    }
    let handle = std::thread::spawn(move || {
        let _held = if hold_std_locks { Some((std::io::stderr().lock(), std::io::stdout().lock())) } else { None };
        let r = catch_unwind(AssertUnwindSafe(|| prayer_times_dt_rng_block(&p2, l, &dr2, thr)));
        let r = r.map_err(|_| LAST_PANIC.with(|p| p.borrow().clone()));
        let _ = tx.send(r);
    });
    // bounded progress, logical criterion
    let mut last_seq = verif::seq();
    let mut last_change = Instant::now();
    let mut cpu_at_change = crate::rec::cpu_s();
    let stall_s: f64 = std::env::var("VERIF_DEADLOCK_S").ok().and_then(|s| s.parse().ok()).unwrap_or(20.0);
    let got: Result<RangeMap, String> = loop {
        match rx.recv_timeout(Duration::from_millis(200)) {
            Ok(r) => break r,
            Err(mpsc::RecvTimeoutError::Disconnected) => break Err("runner thread vanished".into()),
            Err(mpsc::RecvTimeoutError::Timeout) => {
                let sq = verif::seq();
                if sq != last_seq {
                    last_seq = sq;
                    last_change = Instant::now();
                    cpu_at_change = crate::rec::cpu_s();
                    continue;
                }
                if last_change.elapsed().as_secs_f64() > stall_s && all_other_threads_sleeping() {
                    let log = verif::snapshot();
                    let workers_done = log.iter().filter(|e| e.point == "after_send").count();
                    let spawned = log.iter().filter(|e| e.point == "spawn").count();
                    let at_join = log.iter().any(|e| e.point == "before_join");
                    let cend = log.iter().any(|e| e.point == "collector_end");
                    st.violate(
                        "deadlock",
                        c,
                        json!({"pseed": pseed, "why": "no event for the stall window, every thread asleep, call has not returned", "no_progress_s": last_change.elapsed().as_secs_f64(), "workers_spawned": spawned, "workers_done": workers_done, "main_at_join": at_join, "collector_ended": cend, "events": ev_json(&log)}),
                    );
                    return RunOut { deadlocked: true };
                }
                // livelock / busy spin: no hook event for the stall window although the process keeps burning CPU
                let spin_s: f64 = std::env::var("VERIF_SPIN_CPU_S").ok().and_then(|s| s.parse().ok()).unwrap_or(45.0);
                if crate::rec::cpu_s() - cpu_at_change > spin_s {
                    let log = verif::snapshot();
                    st.violate(
                        "no_progress_while_spinning",
                        c,
                        json!({"pseed": pseed, "why": "the call has not returned, no hook event was logged, and the process burned CPU for the whole window (busy wait / livelock)", "cpu_seconds_without_event": crate::rec::cpu_s() - cpu_at_change, "collector_ended": log.iter().any(|e| e.point == "collector_end"), "workers_done": log.iter().filter(|e| e.point == "after_send").count(), "events": ev_json(&log)}),
                    );
                    return RunOut { deadlocked: true };
                }
                if last_change.elapsed().as_secs_f64() > 600.0 {
                    st.note("a run made no progress for 600 s while threads were not all asleep: inconclusive (wall-clock watchdog)");
                    st.count("inconclusive.wall_clock_watchdog");
                    return RunOut { deadlocked: true };
                }
            }
        }
    };
    let _ = handle.join();
    let wall = t0.elapsed().as_secs_f64();
    let log = verif::stop_recording();
    verif::set_perturbation(0, 0);
    st.decided += 1;
    st.margin("slowest_run_wall_s(observation only)", wall, 600.0, || json!(c));
    let parallel = log.iter().any(|e| e.point == "parallel");
    st.count(if parallel { "runs.parallel_path" } else { "runs.sequential_path" });
    let expected: RangeMap = expected_before.unwrap_or_else(|| prayer_times_dt_rng(&p, l, &dr));
    match got {
        Err(pm) if pm.contains("failed to spawn thread") => {
            // the OS refused a thread (resource limits of the sandbox): says nothing about the property
            st.count("environment.thread_spawn_refused(not judged)");
        }
        Err(pm) => {
            st.violate("panic", c, json!({"pseed": pseed, "panic": pm, "events": ev_json(&log)}));
        }
        Ok(map) => {
            if map != expected {
                let missing: Vec<String> = expected.keys().filter(|d| !map.contains_key(d)).take(5).map(|d| d2s(*d)).collect();
                let extra: Vec<String> = map.keys().filter(|d| !expected.contains_key(d)).take(5).map(|d| d2s(*d)).collect();
                let diff: Vec<String> = map.iter().filter(|(d, r)| expected.get(d).map(|x| x != *r).unwrap_or(false)).take(5).map(|(d, _)| d2s(*d)).collect();
                st.violate(
                    "parallel_differs_from_sequential",
                    c,
                    json!({"pseed": pseed, "parallel_path": parallel, "entries_parallel": map.len(), "entries_sequential": expected.len(), "missing_dates": missing, "extra_dates": extra, "differing_dates": diff, "events": ev_json(&log)}),
                );
            }
        }
    }
    // worker count actually used (the hook events carry it; with workers = 0 the host's own parallelism applies)
    let used_workers = log.iter().find(|e| e.point == "parallel" || e.point == "sequential").map(|e| e.entries).unwrap_or(c.workers);
    if c.workers == 0 {
        st.count(&format!("runs.host_parallelism.workers={used_workers}"));
    }
    if parallel {
        for (clause, d) in check_log(&log, ce(s), c.days.max(0), if c.workers == 0 { used_workers } else { c.workers }) {
            st.violate(&clause, c, json!({"pseed": pseed, "detail": d, "events": ev_json(&log)}));
        }
        let nworkers = log.iter().filter(|e| e.point == "spawn").count();
        st.margin("max_partitions_in_one_run", nworkers as f64, 64.0, || json!(c));
        // distinct observed event orders / arrival permutations
        let mut parts: Vec<i32> = log.iter().filter(|e| e.point == "spawn").map(|e| e.first).collect();
        parts.sort();
        let mut h: u64 = 0xcbf29ce484222325;
        let mut hp: u64 = 0xcbf29ce484222325;
        for e in &log {
            let pi = parts.iter().position(|x| *x == e.first).unwrap_or(99) as u64;
            for b in [e.role as u64, e.point.len() as u64, e.point.as_bytes()[0] as u64, pi] {
                h = (h ^ b).wrapping_mul(0x100000001b3);
            }
            if e.point == "recv" {
                hp = (hp ^ pi).wrapping_mul(0x100000001b3);
            }
        }
        sigs.insert(h ^ (c.workers as u64) << 48 ^ (c.days as u64) << 32);
        perms.insert(hp ^ (c.workers as u64) << 48 ^ (c.days as u64) << 32);
        // did a worker finish sending before another was even spawned / collector interleavings — coverage flags
        let first_recv = log.iter().position(|e| e.point == "recv");
        let last_spawn = log.iter().rposition(|e| e.point == "spawn");
        if let (Some(a), Some(b)) = (first_recv, last_spawn) {
            st.count(if a < b { "interleaving.recv_before_last_spawn" } else { "interleaving.all_spawned_before_first_recv" });
        }
        let bd = log.iter().position(|e| e.point == "before_drop");
        let last_send = log.iter().rposition(|e| e.point == "after_send");
        if let (Some(a), Some(b)) = (bd, last_send) {
            st.count(if a < b { "interleaving.main_dropped_sender_before_last_send" } else { "interleaving.all_sent_before_main_dropped_sender" });
        }
    }
    RunOut { deadlocked: false }
}

thread_local! {
    static SIGS: std::cell::RefCell<(HashSet<u64>, HashSet<u64>)> = std::cell::RefCell::new((HashSet::new(), HashSet::new()));
}

pub fn check(ctx: &Ctx, st: &mut Stats, c: &Case) {
    st.begin_case(ctx, c);
    SIGS.with(|s| {
        let mut s = s.borrow_mut();
        let (a, b) = &mut *s;
        for rep in 0..c.repeats.max(1) {
            let pseed = if c.pseed == 0 { 0 } else { c.pseed + rep as u64 };
            let out = one_run(st, c, pseed, a, b);
            if out.deadlocked {
                st.extra.insert("aborted_after_deadlock".into(), json!(true));
                return;
            }
        }
    });
    let before = st.nontrivial;
    let _ = before;
}

fn site(r: &mut Rng) -> Site {
    let lon = gen::any_lon(r);
    Site::new(gen::lat_within(r, 55.0), lon, 0.0, gen::gmt_near(r, lon, 2.0))
}

pub fn configs(ctx: &Ctx) -> Vec<(usize, i64, usize)> {
    // (workers, days, threshold)
    let workers = [1usize, 2, 3, 5, 7, 8, 13, 16, 31, 32, 33, 63, 64];
    let mut v = vec![];
    for &w in &workers {
        let wi = w as i64;
        let mut days = vec![0, 1, 2, 3, wi - 1, wi, wi + 1, 2 * wi - 1, 2 * wi + 1, 365, 366, 1000];
        // spans beyond 4096 days (tables / chunks sized in powers of two): cheap under policy None, which the quick
        // tier forces for them
        days.push(4099);
        days.push(6000);
        days.sort();
        days.dedup();
        for d in days {
            if d < 0 {
                continue;
            }
            let q = (d / wi) as usize;
            let mut ths = vec![0usize, 1, q.saturating_sub(1), q, q + 1, 400];
            ths.sort();
            ths.dedup();
            for t in ths {
                v.push((w, d, t));
            }
        }
    }
    v
}

pub fn run(ctx: &Ctx, st: &mut Stats) {
    if ctx.build == "miri" {
        return run_miri(ctx, st);
    }
    let cfgs = configs(ctx);
    let reps = ((ctx.pick(8, 64) as f64 * ctx.scale).ceil() as u32).max(1);
    let mut r = Rng::new(ctx.seed, 1501, ctx.shard);
    let mut n = 0u64;
    if ctx.shard % 2 == 0 {
        // the very first computation of this process: a parallel range containing days without twilight, made while the
        // caller holds the stderr / stdout locks (anything the library does once per process happens under them)
        let north = ctx.shard % 4 == 0;
        let c = Case {
            site: Site::new(if north { 56.0 } else { -56.0 }, 10.0, 0.0, 1.0),
            method: 6,
            default_policy: false,
            start: d2s(ymd(2000 + (ctx.seed % 300) as i32, if north { 6 } else { 12 }, 1)),
            days: 40,
            workers: 4,
            threshold: 0,
            pseed: (ctx.seed * 1000 + ctx.shard) * 8 + 3,
            max_sleep_us: 200,
            repeats: 1,
        };
        st.count("first_call_of_process_is_a_parallel_range_under_held_std_locks");
        check(ctx, st, &c);
    }
    for (i, (w, d, t)) in cfgs.iter().enumerate() {
        if !ctx.mine(i as u64) {
            continue;
        }
        // parallel-path configurations get the perturbation seeds; sequential-path ones one plain run + one seeded
        let parallel_expected = *w > 1 && (*d as usize) / *w >= *t;
        let c = Case {
            site: site(&mut r),
            method: r.int(1, 8) as usize,
            default_policy: r.chance(0.3) && (*d <= 1000 || ctx.thorough),
            start: d2s(from_ce(r.int(day_lo() as i64, day_hi() as i64 - 6100) as i32)),
            days: *d,
            workers: *w,
            threshold: *t,
            pseed: ctx.seed * 1_000_003 + i as u64 * 1009 + 1,
            max_sleep_us: *r.pick(&[0u64, 200, 2000]),
            repeats: if parallel_expected { reps } else { 1 },
        };
        if n < 3 {
            st.sample(|| json!(c));
        }
        n += 1;
        if n % 40 == 7 {
            // fault injection: a range call that panics inside the parallel branch (a Params value with a missing
            // key), caught; the valid parallel calls that follow must be unaffected
            verif::set_parallelism_override(0);
            super::out_of_domain_calls(3);
            st.count("fault_injection.out_of_domain_call_groups");
        }
        check(ctx, st, &c);
        if parallel_expected {
            st.nontrivial_key(hash64(&format!("{:?}", (w, d, t))));
        }
        if st.extra.contains_key("aborted_after_deadlock") {
            break;
        }
    }
    // hostile extra: few keys, many threads, heavy perturbation on small ranges
    let extra = ctx.quota(2_000, 60_000);
    for k in 0..extra {
        if st.extra.contains_key("aborted_after_deadlock") {
            break;
        }
        let w = r.int(2, 64) as usize;
        let d = match r.int(0, 3) {
            0 => r.int(0, 3),
            1 => w as i64 + r.int(-1, 1),
            2 => r.int(0, 200),
            _ => r.int(0, 2 * w as i64 + 2),
        };
        let c = Case {
            site: site(&mut r),
            method: r.int(1, 8) as usize,
            default_policy: false,
            start: d2s(from_ce(r.int(day_lo() as i64, day_hi() as i64 - 6100) as i32)),
            days: d,
            workers: w,
            threshold: r.int(0, 2) as usize,
            pseed: ctx.seed * 7_000_003 + ctx.shard * 100_003 + k * 17 + 1,
            max_sleep_us: *r.pick(&[0u64, 100, 1000, 2000]),
            repeats: 2,
        };
        check(ctx, st, &c);
        st.nontrivial_key(hash64(&format!("{:?}", (c.workers, c.days, c.threshold, c.pseed))));
    }
    // long ranges at a high latitude under the default (nearest-good-day) policy: per-day work is heavy and
    // value-dependent, partitions are thousands of days long — wrong VALUES (not only wrong key sets) in the
    // parallel path show up here
    let long_cfgs: Vec<(usize, i64)> = [16usize, 32, 64, 13, 8, 5].iter().flat_map(|w| [(*w, 6000i64), (*w, 4200)]).collect();
    let nlong = ctx.pick(4, 48) as usize;
    for i in 0..nlong {
        if !ctx.mine(i as u64 + 7) || st.extra.contains_key("aborted_after_deadlock") {
            continue;
        }
        let (w, d) = long_cfgs[i % long_cfgs.len()];
        let lon = gen::any_lon(&mut r);
        let c = Case {
            site: Site::new(if i % 2 == 0 { 60.0 } else { -58.0 }, lon, 0.0, gen::gmt_near(&mut r, lon, 1.0)),
            method: *r.pick(&ANGLE_METHODS),
            default_policy: true,
            start: d2s(from_ce(r.int(day_lo() as i64, day_hi() as i64 - 6100) as i32)),
            days: d,
            workers: w,
            threshold: 0,
            pseed: ctx.seed * 11_000_027 + i as u64 * 37 + 1,
            max_sleep_us: 0,
            repeats: 1,
        };
        check(ctx, st, &c);
        st.count("runs.long_range_high_latitude_default_policy");
        st.nontrivial_key(hash64(&format!("{:?}", (c.workers, c.days, c.pseed))));
    }
    // the host's own parallelism (no override): whatever `available_parallelism()` says under this process's CPU
    // affinity and environment decides the worker count
    for k in 0..ctx.pick(12, 400) {
        if st.extra.contains_key("aborted_after_deadlock") {
            break;
        }
        let c = Case {
            site: site(&mut r),
            method: r.int(1, 8) as usize,
            default_policy: r.chance(0.3),
            start: d2s(from_ce(r.int(day_lo() as i64, day_hi() as i64 - 1200) as i32)),
            days: *r.pick(&[0i64, 1, 2, 5, 15, 16, 17, 31, 33, 100, 365, 1000]),
            workers: 0,
            threshold: *r.pick(&[0usize, 0, 1, 2, 400]),
            pseed: ctx.seed * 15_000_017 + ctx.shard * 953 + k * 43 + 1,
            max_sleep_us: *r.pick(&[0u64, 200]),
            repeats: 1,
        };
        check(ctx, st, &c);
        st.nontrivial_key(hash64(&format!("host{:?}", (c.days, c.threshold, c.pseed))));
    }
    // medium ranges at 50-62 deg under the default policy with many workers: many partition starts inside the
    // no-twilight season (a per-sweep carried state shows as a dependence on where a partition starts)
    for k in 0..ctx.pick(6, 200) {
        if st.extra.contains_key("aborted_after_deadlock") {
            break;
        }
        let lon = gen::any_lon(&mut r);
        let c = Case {
            site: Site::new(r.range(50.0, 62.0) * r.sign(), lon, 0.0, gen::gmt_near(&mut r, lon, 1.0)),
            method: *r.pick(&ANGLE_METHODS),
            default_policy: true,
            start: d2s(from_ce(r.int(day_lo() as i64, day_hi() as i64 - 1200) as i32)),
            days: r.int(365, 1000),
            workers: *r.pick(&[16usize, 31, 32, 64]),
            threshold: 0,
            pseed: ctx.seed * 13_000_003 + ctx.shard * 977 + k * 41 + 1,
            max_sleep_us: 0,
            repeats: 1,
        };
        check(ctx, st, &c);
        st.count("runs.medium_range_high_latitude_default_policy");
        st.nontrivial_key(hash64(&format!("{:?}", (c.workers, c.days, c.pseed))));
    }
    // several CALLERS at once in one process (a service answering requests on a thread pool): every call must
    // still return the sequential result, and none may block another forever
    for k in 0..ctx.pick(2, 24) {
        if st.extra.contains_key("aborted_after_deadlock") {
            break;
        }
        let callers = r.int(5, 12) as usize;
        let w = *r.pick(&[4usize, 8, 16]);
        verif::set_parallelism_override(w);
        verif::set_perturbation(0, 0);
        let jobs: Vec<(Site, usize, chrono::NaiveDate, i64)> = (0..callers)
            .map(|_| (site(&mut r), r.int(1, 8) as usize, from_ce(r.int(day_lo() as i64, day_hi() as i64 - 500) as i32), r.int(w as i64, 6 * w as i64)))
            .collect();
        let (tx, rx) = mpsc::channel();
        let barrier = std::sync::Arc::new(std::sync::Barrier::new(callers));
        for (i, (s, m, start, days)) in jobs.iter().cloned().enumerate() {
            let tx = tx.clone();
            let b = barrier.clone();
            std::thread::spawn(move || {
                let mut p = Params::new(METHODS[m]);
                p.extreme_latitude_method = ExtremeLatitudeMethod::None;
                let dr = DateRange::from(start..=from_ce(ce(start) + days as i32 - 1));
                let expected = prayer_times_dt_rng(&p, s.loc(), &dr);
                b.wait();
                let mut ok = true;
                let mut pm = String::new();
                for _ in 0..6 {
                    match catch_unwind(AssertUnwindSafe(|| prayer_times_dt_rng_block(&p, s.loc(), &dr, 0))) {
                        Ok(got) => ok &= got == expected,
                        Err(_) => {
                            ok = false;
                            pm = LAST_PANIC.with(|p| p.borrow().clone());
                        }
                    }
                }
                let _ = tx.send((i, ok, pm));
            });
        }
        drop(tx);
        let mut finished = 0usize;
        let mut last = Instant::now();
        let mut cpu_mark = crate::rec::cpu_s();
        let stall_s: f64 = std::env::var("VERIF_DEADLOCK_S").ok().and_then(|s| s.parse().ok()).unwrap_or(20.0);
        let desc = json!({"concurrent_callers": callers, "workers": w, "jobs": jobs.iter().map(|j| json!({"site": j.0, "method": j.1, "start": d2s(j.2), "days": j.3})).collect::<Vec<_>>()});
        while finished < callers {
            match rx.recv_timeout(Duration::from_millis(200)) {
                Ok((i, ok, pm)) => {
                    finished += 1;
                    last = Instant::now();
                    cpu_mark = crate::rec::cpu_s();
                    st.evaluations += 6;
                    if !ok && pm.contains("failed to spawn thread") {
                        st.count("environment.thread_spawn_refused(not judged)");
                    } else if !ok {
                        st.violate(if pm.is_empty() { "parallel_differs_from_sequential" } else { "panic" }, &desc, json!({"caller": i, "panic": pm, "under": "concurrent callers"}));
                    }
                }
                Err(mpsc::RecvTimeoutError::Disconnected) => break,
                Err(mpsc::RecvTimeoutError::Timeout) => {
                    if last.elapsed().as_secs_f64() > stall_s && all_other_threads_sleeping() {
                        st.violate("deadlock", &desc, json!({"why": "concurrent callers: no caller finished for the stall window and every thread is asleep", "callers_finished": finished, "callers": callers}));
                        st.extra.insert("aborted_after_deadlock".into(), json!(true));
                        break;
                    }
                    if crate::rec::cpu_s() - cpu_mark > 90.0 && last.elapsed().as_secs_f64() > 30.0 {
                        st.violate("no_progress_while_spinning", &desc, json!({"why": "concurrent callers: no caller finished although the process burned CPU for the whole window", "callers_finished": finished, "callers": callers}));
                        st.extra.insert("aborted_after_deadlock".into(), json!(true));
                        break;
                    }
                    if last.elapsed().as_secs_f64() > 600.0 {
                        st.count("inconclusive.wall_clock_watchdog");
                        st.extra.insert("aborted_after_deadlock".into(), json!(true));
                        break;
                    }
                }
            }
        }
        st.decided += 1;
        st.count("runs.concurrent_callers_groups");
        st.nontrivial_key(hash64(&format!("cc{:?}{}", (callers, w, k), ctx.shard)));
    }
    // seconds-long injected delays (a worker that is late by more than any sane timeout) on one shard in four
    if ctx.shard % 4 == 0 || ctx.thorough {
        for k in 0..ctx.pick(1, 3) {
            if st.extra.contains_key("aborted_after_deadlock") {
                break;
            }
            let w = r.int(2, 3) as usize;
            let c = Case {
                site: site(&mut r),
                method: r.int(1, 8) as usize,
                default_policy: false,
                start: d2s(from_ce(r.int(day_lo() as i64, day_hi() as i64 - 6100) as i32)),
                days: r.int(w as i64, 2 * w as i64),
                workers: w,
                threshold: 0,
                pseed: ctx.seed * 17_000_023 + ctx.shard * 100_043 + k * 47 + 1,
                max_sleep_us: 7_000_000,
                repeats: 1,
            };
            check(ctx, st, &c);
            st.count("runs.with_seconds_long_injected_delays(<=7s)");
        }
    }
    // long injected delays (tens of ms) on small configurations: timing-based termination conditions
    // (recv_timeout, polling collectors, "wait a bit then stop") only show when a worker is late
    for k in 0..ctx.pick(4, 40) {
        if st.extra.contains_key("aborted_after_deadlock") {
            break;
        }
        let w = r.int(2, 5) as usize;
        let c = Case {
            site: site(&mut r),
            method: r.int(1, 8) as usize,
            default_policy: false,
            start: d2s(from_ce(r.int(day_lo() as i64, day_hi() as i64 - 6100) as i32)),
            days: r.int(w as i64, 3 * w as i64),
            workers: w,
            threshold: 0,
            pseed: ctx.seed * 9_000_011 + ctx.shard * 100_019 + k * 31 + 1,
            max_sleep_us: 120_000,
            repeats: 1,
        };
        check(ctx, st, &c);
        st.count("runs.with_long_injected_delays(<=120ms)");
        st.nontrivial_key(hash64(&format!("{:?}", (c.workers, c.days, c.threshold, c.pseed))));
    }
    SIGS.with(|s| {
        let s = s.borrow();
        st.add("distinct_event_order_signatures", s.0.len() as u64);
        st.add("distinct_arrival_permutations", s.1.len() as u64);
    });
    st.extra.insert("rule".into(), json!("configurations (workers x days x threshold) from the fixed grid {1,2,3,5,7,8,13,16,31,32,33,63,64} x {0,1,2,3,w-1,w,w+1,2w-1,2w+1,365,366,1000[,6000]} x {0,1,q-1,q,q+1,400}, each parallel-path configuration repeated under several perturbation seeds, plus seeded random small-range/many-worker runs; non-trivial = configurations (and random runs) that took the parallel path by the model; schedules are sampled, not enumerated"));
}

/// tiny workload for the Miri leg (the interpreter itself reports data races and deadlocks)
fn run_miri(ctx: &Ctx, st: &mut Stats) {
    let mut r = Rng::new(ctx.seed, 1502, ctx.shard);
    for k in 0..ctx.pick(1, 3) {
        let w = r.int(2, 4) as usize;
        let d = r.int(w as i64 - 1, w as i64 + 1).max(1);
        let c = Case {
            site: Site::new(30.0, 31.0, 0.0, 2.0),
            method: 3,
            default_policy: false,
            start: "2023-03-19".into(),
            days: d,
            workers: w,
            threshold: 0,
            pseed: 0,
            max_sleep_us: 0,
            repeats: 1,
        };
        let mut p = Params::new(METHODS[c.method]);
        p.extreme_latitude_method = ExtremeLatitudeMethod::None;
        let s = s2d(&c.start);
        let dr = DateRange::from(s..=from_ce(ce(s) + d as i32 - 1));
        let expected = prayer_times_dt_rng(&p, c.site.loc(), &dr);
        verif::set_parallelism_override(w);
        verif::start_recording();
        // called on the main thread without a polling watcher: a deadlock is then visible to Miri itself
        let got = prayer_times_dt_rng_block(&p, c.site.loc(), &dr, 0);
        let log = verif::stop_recording();
        st.evaluations += 2;
        st.decided += 1;
        st.nontrivial_key(k);
        if got != expected {
            st.violate("parallel_differs_from_sequential", &c, json!({"under": "miri", "events": ev_json(&log)}));
        }
        for (clause, dd) in check_log(&log, ce(s), d, w) {
            st.violate(&clause, &c, json!({"under": "miri", "detail": dd}));
        }
        st.sample(|| json!(c));
    }
}
