//! C16 — Qibla is the great-circle bearing to the Kaaba (vector oracle Q), range, label, text, elevation-independent.
use super::guarded;
use crate::gen;
use crate::oracle as o;
use crate::rec::{Ctx, Stats};
use crate::util::*;
use serde::{Deserialize, Serialize};
use serde_json::json;

#[derive(Serialize, Deserialize, Clone, Debug)]
pub struct Case {
    pub lat: X,
    pub lon: X,
    pub elev: X,
    pub elev2: X,
}

const TOL: f64 = 1e-6;

thread_local! {
    static RING: std::cell::RefCell<Vec<(f64, f64, f64, f64)>> = std::cell::RefCell::new(Vec::new());
}

pub fn check(_ctx: &Ctx, st: &mut Stats, c: &Case) {
    let (lat, lon) = (c.lat.0, c.lon.0);
    let dk = o::ang_dist(lat, lon, o::KAABA_LAT, o::KAABA_LON);
    if dk < 0.1 || dk > 179.9 {
        st.count("exempt(within 0.1 deg of the Kaaba or its antipode)");
        return;
    }
    st.evaluations += 2;
    st.tick();
    if (lat.to_bits() ^ lon.to_bits()) % 16 == 1 {
        // typical application flow: prayer times for a place, then its Qibla, on the same thread
        st.count("prayer_times_call_before_qibla(same coordinates)");
        let mut pp = Params::new(Method::Mwl);
        pp.extreme_latitude_method = ExtremeLatitudeMethod::None; // (the default policy searches a year of days at polar sites)
        let _ = guarded(|| prayer_times_dt(&pp, loc(lat, lon, c.elev.0, (lon / 15.0).round().clamp(-12.0, 12.0)), ymd(2024, 3, 1), None));
    }
    let coords = |e: f64| Coordinates::new(Latitude::try_from(lat).unwrap(), Longitude::try_from(lon).unwrap(), Elevation::try_from(e).unwrap());
    let r = guarded(|| {
        let q = Qibla::new(coords(c.elev.0));
        let q2 = Qibla::new(coords(c.elev2.0));
        (q.degrees(), q.rotation(), q.to_string(), q2.degrees(), q2.to_string())
    });
    let (deg, rot, text, deg2, text2) = match r {
        Ok(x) => x,
        Err(pm) => {
            st.violate("panic", c, json!({"panic": pm}));
            return;
        }
    };
    st.decided += 1;
    // history-independence probe: the same point as the FIRST Qibla computed on a fresh thread
    if st.decided % 64 == 0 || lat == 0.0 && st.decided % 4 == 0 {
        let f = std::thread::scope(|s| s.spawn(|| guarded(|| Qibla::new(coords(c.elev.0)).degrees())).join());
        st.count("history_probe.first_call_on_fresh_thread");
        if let Ok(Ok(fd)) = f {
            if fd.to_bits() != deg.to_bits() {
                st.violate("result_depends_on_call_history", c, json!({"in_sequence": deg, "first_call_on_fresh_thread": fd}));
            }
        }
    }
    // revisit probe: a place requested some hundreds of requests ago, requested again now (A, B, ..., A)
    RING.with(|ring| {
        let mut ring = ring.borrow_mut();
        if ring.len() >= 400 {
            let k = (st.decided as usize * 7919) % 390;
            let (pla, plo, pel, pdeg) = ring[k];
            if let Ok(again) = guarded(|| Qibla::new(Coordinates::new(Latitude::try_from(pla).unwrap(), Longitude::try_from(plo).unwrap(), Elevation::try_from(pel).unwrap())).degrees()) {
                if again.to_bits() != pdeg.to_bits() {
                    st.violate("result_depends_on_call_history", &Case { lat: X(pla), lon: X(plo), elev: X(pel), elev2: X(pel) }, json!({"first": pdeg, "revisited_later": again}));
                }
            }
            ring.remove(k);
            if st.decided % 32 == 0 {
                st.count("history_probe.revisits");
            }
        }
        ring.push((lat, lon, c.elev.0, deg));
    });
    if st.decided % 5003 == 0 {
        // fault injection: the poles themselves (valid Coordinates, outside the property's open interval), caught
        for pl in [90.0, -90.0] {
            let _ = guarded(|| Qibla::new(Coordinates::new(Latitude::try_from(pl).unwrap(), Longitude::try_from(lon).unwrap(), Elevation::try_from(0.0).unwrap())).to_string());
        }
        st.count("fault_injection.out_of_domain_call_groups");
    }
    let want = o::qibla_bearing(lat, lon);
    // compare on the circle (a bearing of 179.9999999 vs -179.9999999 is the same direction)
    let d = o::norm180(deg - want);
    st.margin("bearing_error_deg", d, TOL, || json!({"case": c, "got": deg, "want": want}));
    if !(d.abs() <= TOL) {
        st.violate("bearing", c, json!({"got": deg, "want": want, "error_deg": d, "distance_to_kaaba_deg": dk}));
    }
    if !(deg > -180.0 && deg <= 180.0) {
        st.violate("range", c, json!({"got": deg, "note": "must lie in (-180, 180]"}));
    }
    let want_rot = if deg < 0.0 { Rotation::Cw } else { Rotation::Ccw };
    if rot != want_rot {
        st.violate("rotation_label", c, json!({"degrees": deg, "rotation": format!("{rot:?}")}));
    }
    let want_text = format!("{:.1}° {}", deg.abs(), if deg < 0.0 { "CW" } else { "CCW" });
    if text != want_text {
        st.violate("printed_text", c, json!({"got": text, "want": want_text}));
    }
    if deg.to_bits() != deg2.to_bits() || text != text2 {
        st.violate("depends_on_elevation", c, json!({"deg_at_elev1": deg, "deg_at_elev2": deg2}));
    }
    if (lon - 39.823333).abs() < 1e-9 || (lon + 140.176667).abs() < 1e-9 {
        st.count("on_kaaba_meridian_or_antimeridian");
    }
    if dk < 1.0 || dk > 179.0 {
        st.count("within_1deg_of_kaaba_or_antipode");
    }
}

fn gen_case(r: &mut Rng) -> Case {
    let (lat, lon) = match r.int(0, 11) {
        0 => (r.range(-89.999, 89.999), 39.823333),
        1 => (r.range(-89.999, 89.999), -140.176667),
        2 => (89.999 * r.sign(), gen::any_lon(r)),
        3 => (r.range(-89.999, 89.999), 180.0 * r.sign()),
        4 => {
            // ring around the Kaaba, 0.1..1 deg
            let (rad, th) = (r.range(0.1001, 1.0), r.range(0.0, 360.0_f64).to_radians());
            (21.423333 + rad * th.cos(), 39.823333 + rad * th.sin() / 21.423333_f64.to_radians().cos())
        }
        5 => {
            let (rad, th) = (r.range(0.1001, 1.0), r.range(0.0, 360.0_f64).to_radians());
            (-21.423333 + rad * th.cos(), -140.176667 + rad * th.sin() / 21.423333_f64.to_radians().cos())
        }
        6 => (0.0, gen::any_lon(r)),
        7 => {
            // as close to a pole as the open interval allows: 90 - 10^-u, u in [3, 13]
            let u = r.range(3.0, 13.0);
            ((90.0 - 10f64.powf(-u)) * r.sign(), gen::any_lon(r))
        }
        _ => (r.range(-89.999, 89.999), gen::any_lon(r)),
    };
    let lim = 90.0 - 1e-13;
    Case {
        lat: X(lat.clamp(-lim, lim)),
        lon: X(lon.clamp(-180.0, 180.0)),
        elev: X(gen::any_elev(r)),
        elev2: X(gen::any_elev(r)),
    }
}

pub fn run(ctx: &Ctx, st: &mut Stats) {
    // fixed hostile points: both meridians at a ladder of latitudes, date line, near-poles
    let mut idx = 0u64;
    let kl = 39.823333_f64;
    let nudged = |x: f64, k: i64| f64::from_bits((x.to_bits() as i64 + k) as u64);
    for lon in [kl, -140.176667, 180.0, -180.0, 0.0, -kl, 140.176667, nudged(kl, 1), nudged(kl, -1), nudged(kl, 3), nudged(-140.176667, 1), nudged(-140.176667, -2), -0.0] {
        for i in -899..=899 {
            idx += 1;
            if !ctx.mine(idx) {
                continue;
            }
            let c = Case {
                lat: X(i as f64 / 10.0),
                lon: X(lon),
                elev: X(0.0),
                elev2: X(8848.0),
            };
            // published for the stall watchdog
            if let Ok(mut cur) = crate::rec::CURRENT.lock() {
                *cur = serde_json::to_string(&c).unwrap_or_default();
            }
            check(ctx, st, &c);
            st.nontrivial_key(hash64(&format!("{:?}", c)));
        }
    }
    let n = ctx.quota(2_000_000, 200_000_000);
    let mut r = Rng::new(ctx.seed, 1601, ctx.shard);
    for k in 0..n {
        let c = gen_case(&mut r);
        let before = st.decided;
        check(ctx, st, &c);
        if st.decided > before {
            st.nontrivial_key((c.lat.0.to_bits() ^ c.lon.0.to_bits().rotate_left(21)).wrapping_mul(0x9E3779B97F4A7C15));
        }
        if k < 3 {
            st.sample(|| json!(c));
        }
    }
    // special-direction seeking: longitudes (adjacent f64 values) at which the bearing crosses a quarter turn (+-90 deg:
    // one component of the direction vector passes through zero), due north / south (0 / 180) — and ~1600 floats on
    // either side, every one judged by the vector oracle (an "exact" fast path for a vanishing component lives here)
    let nseek = ctx.quota(1_500, 100_000);
    let mut rs = Rng::new(ctx.seed, 1602, ctx.shard);
    let deg_at = |la: f64, lo: f64| -> Option<f64> { guarded(|| Qibla::new(Coordinates::new(Latitude::try_from(la).unwrap(), Longitude::try_from(lo).unwrap(), Elevation::try_from(0.0).unwrap())).degrees()).ok() };
    for _ in 0..nseek {
        let la = if rs.chance(0.3) { (rs.range(-89.0, 89.0) * 2.0).round() / 2.0 } else { rs.range(-89.0, 89.0) };
        let target = *rs.pick(&[90.0, -90.0, 90.0, -90.0, 0.0]);
        // scan for a sign change of (bearing - target) along the parallel, then bisect to adjacent floats
        let f = |lo: f64| deg_at(la, lo).map(|d| o::norm180(d - target));
        let start = rs.range(-180.0, 170.0);
        let mut found = None;
        let mut prev = f(start);
        let mut lo = start;
        while lo < 180.0 - 2.0 {
            let nx = lo + 2.0;
            let cur = f(nx);
            if let (Some(a), Some(b)) = (prev, cur) {
                if (a > 0.0) != (b > 0.0) && (a - b).abs() < 90.0 {
                    found = Some((lo, nx, a > 0.0));
                    break;
                }
            }
            prev = cur;
            lo = nx;
        }
        let Some((l0, l1, pos0)) = found else {
            st.count("special_direction_seeks.no_crossing_on_this_parallel");
            continue;
        };
        let (a, b) = super::bisect(l0, l1, |x| f(x).map(|v| (v > 0.0) == pos0).unwrap_or(true));
        st.count(&format!("special_direction_seeks.target_{target}"));
        for k in -800i64..=800 {
            let lon = if k <= 0 { super::nudge_ulps(a, k) } else { super::nudge_ulps(b, k - 1) };
            if !(-180.0..=180.0).contains(&lon) {
                continue;
            }
            let c = Case { lat: X(la), lon: X(lon), elev: X(0.0), elev2: X(100.0) };
            check(ctx, st, &c);
        }
        st.nontrivial_key(hash64(&format!("seek{la}{a}")));
    }
    st.extra.insert("rule".into(), json!("fixed ladders along the Kaaba meridian/antimeridian/date line/prime meridian (0.1 deg steps) + seeded random incl. rings 0.1..1 deg around the Kaaba and its antipode, near-pole latitudes; non-trivial = outside the 0.1 deg exemption; distinct by (lat,lon) bits"));
}
