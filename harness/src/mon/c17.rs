//! C17 — Hijri conversion equals the tabular Islamic calendar, day for day (exhaustive 0001-01-01..9999-12-31).
use super::guarded;
use crate::oracle as o;
use crate::rec::{Ctx, Stats};
use crate::util::*;
use chrono::Datelike;
use serde::{Deserialize, Serialize};
use serde_json::json;

/// dates [start, start+len)
#[derive(Serialize, Deserialize, Clone, Debug)]
pub struct Case {
    pub start: String,
    pub len: u32,
}

const MONTHS: [&str; 12] = [
    "Muharram",
    "Safar",
    "Rabia Awal",
    "Rabia Thani",
    "Jumada Awal",
    "Jumada Thani",
    "Rajab",
    "Shaaban",
    "Ramadan",
    "Shawwal",
    "Dhul Qiddah",
    "Dhul Hijjah",
];
const DAYS: [&str; 7] = ["Ahad", "Ithnain", "Thulatha", "Arbiaa", "Khamees", "Jumaah", "Sabt"];

#[derive(Clone, Copy, PartialEq, Debug)]
struct H {
    y: u32,
    bh: bool,
    m: u32,
    d: u32,
}

pub fn check(_ctx: &Ctx, st: &mut Stats, c: &Case) {
    let start = ce(s2d(&c.start));
    let mut prev: Option<(H, i64)> = None; // library's own previous output + its astronomical year
    for i in 0..c.len as i32 {
        let date = from_ce(start + i);
        let one = Case { start: d2s(date), len: 1 };
        // published for the stall watchdog: a conversion that never returns is named by its date
        if let Ok(mut cur) = crate::rec::CURRENT.lock() {
            cur.clear();
            cur.push_str("{\"start\":\"");
            cur.push_str(&one.start);
            cur.push_str("\",\"len\":1}");
        }
        crate::rec::PROGRESS.fetch_add(1, std::sync::atomic::Ordering::Relaxed);
        st.evaluations += 1;
        if i % 1024 == 0 {
            st.tick();
        }
        if i % 150_001 == 75_000 {
            // fault injection: far-future / negative-year / calendar-edge conversions between in-domain ones
            super::out_of_domain_calls(1);
            st.count("fault_injection.out_of_domain_call_groups");
        }
        let (wy, wbh, wm, wd) = o::tabular(date);
        let want_wd = date.weekday().num_days_from_sunday() as usize; // 0 = Sunday = Ahad
        let r = guarded(|| {
            let h = HijriDate::from(date);
            let conv = (h.year(), h.pre_epoch(), h.day(), h.date());
            let month = guarded(|| h.month() as u32);
            let dow = guarded(|| h.day_of_week() as u32);
            let text = guarded(|| h.to_string());
            (conv, month, dow, text)
        });
        let ((year, bh, day, back), month, dow, text) = match r {
            Ok(x) => x,
            Err(pm) => {
                st.violate("conversion_panic", &one, json!({"panic": pm, "era": if wbh {"before_epoch"} else {"after_epoch"}}));
                prev = None;
                continue;
            }
        };
        st.decided += 1;
        let era = if wbh { "before_epoch" } else { "after_epoch" };
        st.count(if wbh { "dates.before_hijra" } else { "dates.after_hijra" });
        let want_s = format!("{wd} {} {wy}{}", MONTHS[(wm - 1) as usize], if wbh { " B.H." } else { "" });
        let month_v = match &month {
            Ok(m) => *m,
            Err(pm) => {
                st.violate("accessor_panic", &one, json!({"accessor": "month()", "panic": pm, "era": era, "want": want_s}));
                0
            }
        };
        if let Err(pm) = &dow {
            st.violate("accessor_panic", &one, json!({"accessor": "day_of_week()", "panic": pm, "era": era}));
        }
        if let Err(pm) = &text {
            st.violate("display_panic", &one, json!({"panic": pm, "era": era, "want": want_s}));
        }
        if back != date {
            st.violate("date_accessor", &one, json!({"got": d2s(back)}));
        }
        let got = H { y: year, bh, m: month_v, d: day as u32 };
        let want = H { y: wy, bh: wbh, m: wm, d: wd };
        if month.is_ok() && got != want {
            st.violate("differs_from_tabular_calendar", &one, json!({"got": format!("{got:?}"), "want": format!("{want:?}"), "era": era}));
        }
        if let Ok(dw) = dow {
            if dw as usize != want_wd + 1 {
                st.violate("weekday", &one, json!({"got": dw, "want": want_wd + 1, "era": era}));
            }
        }
        if let (Ok(t), Ok(_), Ok(dw)) = (&text, &month, &dow) {
            // Display: "<weekday>, <day> <month>, <year> A.H.|B.H." — checked structurally against the accessors
            let has = t.contains(DAYS[(*dw as usize - 1) % 7]) && t.contains(MONTHS[((month_v.max(1) - 1) % 12) as usize]) && t.contains(&year.to_string()) && t.contains(&day.to_string());
            if !has {
                st.violate("display_text", &one, json!({"text": t, "accessors": format!("{got:?}")}));
            }
            if i == 0 {
                st.sample(|| json!({"date": d2s(date), "display": t, "tabular": want_s}));
            }
        }
        // structural monitors on the library's own output stream
        if month.is_ok() {
            let ay: i64 = if bh { 1 - year as i64 } else { year as i64 };
            if let Some((p, pay)) = prev {
                let same_month = p.m == got.m && pay == ay;
                let succ_ok = if same_month {
                    got.d == p.d + 1
                } else {
                    let leap = o::tabular_leap(pay);
                    let mlen = if p.m % 2 == 1 || (p.m == 12 && leap) { 30 } else { 29 };
                    got.d == 1 && p.d == mlen && ((p.m < 12 && got.m == p.m + 1 && ay == pay) || (p.m == 12 && got.m == 1 && ay == pay + 1))
                };
                st.count("checks.successor_relation");
                if !succ_ok {
                    st.violate("successor_relation", &one, json!({"previous": format!("{p:?}"), "this": format!("{got:?}"), "era": era}));
                }
            }
            prev = Some((got, ay));
        } else {
            prev = None;
        }
    }
}

fn conv(date: chrono::NaiveDate) -> Option<(u32, bool, u32, u32)> {
    guarded(|| {
        let h = HijriDate::from(date);
        (h.year(), h.pre_epoch(), h.month() as u32, h.day() as u32)
    })
    .ok()
}

fn history_passes(ctx: &Ctx, st: &mut Stats, a: i32, b: i32) {
    let lo = ce(ymd(1, 1, 1));
    let hi = ce(ymd(9999, 12, 31));
    let judge = |st: &mut Stats, day: i32, pass: &str| {
        let date = from_ce(day);
        st.evaluations += 1;
        let (wy, wbh, wm, wd) = o::tabular(date);
        match conv(date) {
            Some(got) => {
                if got != (wy, wbh, wm, wd) {
                    st.violate("differs_from_tabular_calendar", &Case { start: d2s(date), len: 1 }, json!({"pass": pass, "got": format!("{got:?}"), "want": format!("{:?}", (wy, wbh, wm, wd)), "note": "order-dependent: the ascending sweep of the same date may be clean"}));
                }
            }
            None => st.violate("accessor_panic", &Case { start: d2s(date), len: 1 }, json!({"pass": pass})),
        }
    };
    let mut day = b - 1;
    while day >= a {
        judge(st, day, "descending");
        day -= 1;
        if day % 4096 == 0 {
            st.tick();
        }
    }
    st.add("history.descending_pass_dates", (b - a) as u64);
    // application flow (what the command line tool does for every date it prints): prayer times for the date, then its
    // Hijri date, on the same thread — per-thread state left behind by the OTHER public API must not leak into the
    // conversion. Every date of the shard's range.
    {
        let p = {
            let mut p = Params::new(Method::Mwl);
            p.extreme_latitude_method = ExtremeLatitudeMethod::None;
            p
        };
        let l = loc(21.4, 39.8, 0.0, 3.0);
        let mut day = a;
        while day < b {
            let date = from_ce(day);
            let _ = super::guarded(|| prayer_times_dt(&p, l, date, None));
            judge(st, day, "after_prayer_times_for_the_same_date");
            if day % 64 == 0 {
                // and the Qibla in between now and then
                let _ = super::guarded(|| Qibla::new(l.coords).degrees());
            }
            day += 1;
            if day % 4096 == 0 {
                st.tick();
            }
        }
        st.add("history.dates_converted_right_after_prayer_times_for_the_same_date", (b - a) as u64);
    }
    let mut r = Rng::new(ctx.seed, 1701, ctx.shard);
    let n = ctx.quota(800_000, 16_000_000);
    for k in 0..n {
        let d0 = r.int(a as i64, b as i64 - 1) as i32;
        for off in [0, -1, 1, 354, -355, 29, -30] {
            let d = d0 + off;
            if d >= lo && d <= hi {
                judge(st, d, "shuffled_with_neighbour_probes");
            }
        }
        if k % 1024 == 0 {
            st.tick();
        }
    }
    st.add("history.shuffled_probe_groups", n);
}

pub fn run(ctx: &Ctx, st: &mut Stats) {
    let lo = ce(ymd(1, 1, 1));
    let hi = ce(ymd(9999, 12, 31));
    let total = (hi - lo + 1) as u64;
    let chunk = (total + ctx.nshards - 1) / ctx.nshards;
    let a = lo as u64 + ctx.shard * chunk;
    let b = (a + chunk).min(hi as u64 + 1);
    // overlap by one day so the successor relation is checked across shard boundaries too
    let a2 = if ctx.shard > 0 { a - 1 } else { a };
    let c = Case {
        start: d2s(from_ce(a2 as i32)),
        len: (b - a2) as u32,
    };
    check(ctx, st, &c);
    st.nontrivial_by_construction(b - a);
    // history diversity: the same dates again in DESCENDING order and in a seeded shuffled order with
    // neighbour probes (d, d-1, d+1, d+354, d-355) — a conversion must not depend on the calls made before it
    history_passes(ctx, st, a2 as i32, b as i32);
    st.sample(|| json!({"range_checked_by_this_shard": c}));
    st.extra.insert("exhaustive".into(), json!(true));
    st.extra.insert("rule".into(), json!("every Gregorian date 0001-01-01..9999-12-31 (3,652,059 dates, partitioned over shards, distinct by construction): year/month/day/B.H. against the closed-form tabular calendar in integer arithmetic, weekday against chrono, accessors and Display under catch_unwind, successor relation / month lengths on the library's own output stream"));
}
