//! C18 — validated quantities hold only in-range values, however constructed (number / text / JSON / composites).
use super::guarded;
use crate::rec::{Ctx, Stats};
use crate::util::*;
use serde::{Deserialize, Serialize};
use serde_json::json;

#[derive(Serialize, Deserialize, Clone, Debug)]
pub struct Case {
    pub ty: String,
    /// "value" (a number pushed through every route that exists) | "text" | "json" | "composite"
    pub route: String,
    pub value: Option<X>,
    pub text: Option<String>,
}

pub struct Ty {
    pub name: &'static str,
    pub lo: f64,
    pub hi: f64,
    pub from_f64: fn(f64) -> Option<f64>,
    pub from_str: Option<fn(&str) -> Option<f64>>,
    pub from_json: fn(&str) -> Option<f64>,
}

macro_rules! ty {
    ($t:ty, $name:expr, $lo:expr, $hi:expr, str) => {
        Ty {
            name: $name,
            lo: $lo,
            hi: $hi,
            from_f64: |x| <$t as TryFrom<f64>>::try_from(x).ok().map(f64::from),
            from_str: Some(|s| s.parse::<$t>().ok().map(f64::from)),
            from_json: |s| serde_json::from_str::<$t>(s).ok().map(f64::from),
        }
    };
    ($t:ty, $name:expr, $lo:expr, $hi:expr) => {
        Ty {
            name: $name,
            lo: $lo,
            hi: $hi,
            from_f64: |x| <$t as TryFrom<f64>>::try_from(x).ok().map(f64::from),
            from_str: None,
            from_json: |s| serde_json::from_str::<$t>(s).ok().map(f64::from),
        }
    };
}

pub fn types() -> Vec<Ty> {
    vec![
        ty!(Latitude, "Latitude", -90.0, 90.0, str),
        ty!(Longitude, "Longitude", -180.0, 180.0, str),
        ty!(Elevation, "Elevation", -420.0, 8848.0, str),
        ty!(Gmt, "Gmt", -12.0, 12.0, str),
        ty!(Pressure, "Pressure", 100.0, 1050.0),
        ty!(Temperature, "Temperature", -90.0, 57.0),
    ]
}

fn model_accept(t: &Ty, x: f64) -> bool {
    x.is_finite() && t.lo <= x && x <= t.hi
}

/// independent recogniser of decimal floating-point text: [+-]? (d+ (. d*)? | . d+) ([eE] [+-]? d+)?
/// returns None for anything else (incl. nan/inf spellings, whitespace, hex, underscores, non-ASCII digits)
fn well_formed_decimal(s: &str) -> bool {
    let b = s.as_bytes();
    let mut i = 0;
    if i < b.len() && (b[i] == b'+' || b[i] == b'-') {
        i += 1;
    }
    let d0 = i;
    while i < b.len() && b[i].is_ascii_digit() {
        i += 1;
    }
    let int_digits = i - d0;
    let mut frac_digits = 0;
    if i < b.len() && b[i] == b'.' {
        i += 1;
        let f0 = i;
        while i < b.len() && b[i].is_ascii_digit() {
            i += 1;
        }
        frac_digits = i - f0;
    }
    if int_digits + frac_digits == 0 {
        return false;
    }
    if i < b.len() && (b[i] == b'e' || b[i] == b'E') {
        i += 1;
        if i < b.len() && (b[i] == b'+' || b[i] == b'-') {
            i += 1;
        }
        let e0 = i;
        while i < b.len() && b[i].is_ascii_digit() {
            i += 1;
        }
        if i == e0 {
            return false;
        }
    }
    i == b.len()
}

fn judge(st: &mut Stats, c: &Case, route: &str, input: &str, want_accept: bool, want_bits: Option<u64>, got: Result<Option<f64>, String>) {
    st.count(&format!("checks.{route}"));
    match got {
        Err(pm) => st.violate("panic_instead_of_error", c, json!({"route": route, "input": input, "panic": pm})),
        Ok(None) => {
            if want_accept {
                st.violate("rejects_in_range_value", c, json!({"route": route, "input": input}));
            } else {
                st.count("observed.rejections");
            }
        }
        Ok(Some(v)) => {
            if !want_accept {
                st.violate("accepts_out_of_range_value", c, json!({"route": route, "type": c.ty, "input": input, "read_back": format!("{v:?}")}));
            } else if let Some(b) = want_bits {
                st.count("observed.acceptances");
                if v.to_bits() != b {
                    st.violate("read_back_not_bit_identical", c, json!({"route": route, "input": input, "read_back": format!("{v:?}"), "want_bits": format!("{b:016x}")}));
                }
            }
        }
    }
}

fn check_value(st: &mut Stats, c: &Case, t: &Ty, x: f64) {
    let acc = model_accept(t, x);
    st.evaluations += 1;
    judge(st, c, "TryFrom<f64>", &format!("{x:?}"), acc, Some(x.to_bits()), guarded(|| (t.from_f64)(x)));
    // text route on the shortest round-trip decimal
    if let Some(fs) = t.from_str {
        let s = format!("{x:?}");
        st.evaluations += 1;
        judge(st, c, "FromStr", &s, acc, Some(x.to_bits()), guarded(|| fs(&s)));
        if x.is_finite() && x != 0.0 && x.abs() < 1e15 && x.abs() > 1e-5 {
            let s2 = format!("{x:e}");
            st.evaluations += 1;
            judge(st, c, "FromStr(exponent form)", &s2, acc, Some(x.to_bits()), guarded(|| fs(&s2)));
        }
    }
    // JSON route: the number as serde_json itself reads it
    if x.is_finite() {
        let mut texts = vec![format!("{x:?}")];
        if x.fract() == 0.0 && x.abs() < 9.0e15 {
            texts.push(format!("{}", x as i64));
        }
        for s in texts {
            let reading = serde_json::from_str::<f64>(&s).ok();
            st.evaluations += 1;
            match reading {
                Some(_) => {
                    // the JSON route must read the decimal text as the value it denotes (std's correctly rounded
                    // parse), like the text route does: "the three routes agree on every input"
                    let exact: f64 = s.parse().unwrap();
                    judge(st, c, "JSON", &s, model_accept(t, exact), Some(exact.to_bits()), guarded(|| (t.from_json)(&s)));
                }
                None => judge(st, c, "JSON", &s, false, None, guarded(|| (t.from_json)(&s))),
            }
        }
    }
}

fn check_text(st: &mut Stats, c: &Case, t: &Ty, s: &str) {
    let Some(fs) = t.from_str else { return };
    st.evaluations += 1;
    // reference: independent grammar decides well-formedness; value by std's correctly rounded parser (trusted)
    let (acc, bits) = if well_formed_decimal(s) {
        match s.parse::<f64>() {
            Ok(v) => (model_accept(t, v), Some(v.to_bits())),
            Err(_) => (false, None),
        }
    } else {
        (false, None)
    };
    judge(st, c, "FromStr(text corpus)", s, acc, bits, guarded(|| fs(s)));
}

fn check_json_text(st: &mut Stats, c: &Case, t: &Ty, s: &str) {
    st.evaluations += 1;
    // reference: only a JSON number token (as serde_json's own f64 reading) that is in range may be accepted
    let reading = serde_json::from_str::<serde_json::Value>(s).ok().and_then(|v| if v.is_number() { serde_json::from_str::<f64>(s).ok() } else { None });
    match reading {
        Some(r) => judge(st, c, "JSON(text corpus)", s, model_accept(t, r), Some(r.to_bits()), guarded(|| (t.from_json)(s))),
        None => judge(st, c, "JSON(text corpus)", s, false, None, guarded(|| (t.from_json)(s))),
    }
}

fn check_composite(st: &mut Stats, c: &Case, text: &str, want_accept: bool) {
    st.evaluations += 1;
    let kind = c.ty.as_str();
    let got: Result<bool, String> = guarded(|| match kind {
        "Location" => serde_json::from_str::<Location>(text).is_ok(),
        "Coordinates" => serde_json::from_str::<Coordinates>(text).is_ok(),
        "Weather" => serde_json::from_str::<Weather>(text).is_ok(),
        "Params" => serde_json::from_str::<Params>(text).is_ok(),
        "ExtremeLatitudeMethod" => serde_json::from_str::<ExtremeLatitudeMethod>(text).is_ok(),
        _ => panic!("unknown composite"),
    });
    st.count(&format!("checks.composite.{kind}"));
    match got {
        Err(pm) => st.violate("panic_instead_of_error", c, json!({"route": "composite JSON", "input": text, "panic": pm})),
        Ok(ok) => {
            if ok && !want_accept {
                st.violate("composite_accepts_out_of_range_field", c, json!({"document_type": kind, "input": text}));
            } else if !ok && want_accept {
                st.violate("composite_rejects_valid_document", c, json!({"document_type": kind, "input": text}));
            }
        }
    }
}

pub fn check(_ctx: &Ctx, st: &mut Stats, c: &Case) {
    st.tick();
    // published for the stall watchdog (a parser that never returns is named by its input)
    if let Ok(mut cur) = crate::rec::CURRENT.lock() {
        *cur = serde_json::to_string(c).unwrap_or_default();
    }
    st.decided += 1;
    let tys = types();
    if c.route == "composite" {
        // text carries "<A|R>\t<json>"
        let t = c.text.as_ref().unwrap();
        let (flag, doc) = t.split_once('\t').unwrap();
        check_composite(st, c, doc, flag == "A");
        return;
    }
    let t = tys.iter().find(|t| t.name == c.ty).expect("type");
    match c.route.as_str() {
        "value" => check_value(st, c, t, c.value.unwrap().0),
        "text" => check_text(st, c, t, c.text.as_ref().unwrap()),
        "json" => check_json_text(st, c, t, c.text.as_ref().unwrap()),
        _ => panic!("route"),
    }
}

fn ulp_up(x: f64) -> f64 {
    if x == 0.0 {
        return f64::from_bits(1);
    }
    let b = x.to_bits();
    f64::from_bits(if x > 0.0 { b + 1 } else { b - 1 })
}
fn ulp_down(x: f64) -> f64 {
    if x == 0.0 {
        return -f64::from_bits(1);
    }
    let b = x.to_bits();
    f64::from_bits(if x > 0.0 { b - 1 } else { b + 1 })
}

pub fn hostile_values(t: &Ty) -> Vec<f64> {
    let mut v = vec![
        t.lo,
        t.hi,
        ulp_up(t.lo),
        ulp_down(t.lo),
        ulp_up(t.hi),
        ulp_down(t.hi),
        0.0,
        -0.0,
        f64::MIN_POSITIVE,
        -f64::MIN_POSITIVE,
        f64::from_bits(1),
        -f64::from_bits(1),
        f64::NAN,
        -f64::NAN,
        f64::from_bits(0x7ff0000000000001),
        f64::from_bits(0xfff8000000000123),
        f64::INFINITY,
        f64::NEG_INFINITY,
        1e308,
        -1e308,
        f64::MAX,
        f64::MIN,
        t.lo - 1.0,
        t.hi + 1.0,
        t.lo - 1e-9,
        t.hi + 1e-9,
        t.lo * 2.0 - 1.0,
        t.hi * 2.0 + 1.0,
        -t.hi,
        -t.lo,
        (t.lo + t.hi) / 2.0,
        t.lo.floor(),
        t.hi.ceil(),
        5000.0,
        -300.0,
    ];
    v.dedup_by(|a, b| a.to_bits() == b.to_bits());
    v
}

pub const TEXTS: [&str; 53] = [
    "12:30", "-12:59", "05:30", "+5:45", "12:00", "3h", "5°30'", "-1e22", "-1e300",
    "", " ", "45", " 45", "45 ", "\t45", "45\n", "+45", "-45", "9e1", "9E1", "0.9e2", "900e-1", "4_5", "0x2D", "0b1", "45.", ".5", "-.5", "+.5e1", "nan", "NaN", "NAN", "inf", "-inf", "+inf", "infinity", "-Infinity",
    "1e999", "-1e999", "1e-999", "٤٥", "４５", "45°", "45,0", "45.0.0", "--45", "+-45", "e5", "1e", "1e+", "0x1p3", "45f64", "١٢",
];
pub const JSONS: [&str; 38] = [
    "18446744073709551615", "18446744073709551571", "18446744073709551604", "9223372036854775808", "-9223372036854775809", "1e19", "4294967341", "-4294967251",
    "45", "45.0", "4.5e1", "-45", "90", "91", "-91", "1e999", "-1e999", "1e-999", "null", "\"45\"", "[45]", "{\"0\":45}", "true", "false", "NaN", "Infinity", "-Infinity", "", " 45 ", "045", "+45", ".5", "5.", "0x2D", "1050", "1051", "57", "58",
];

fn composites() -> Vec<(&'static str, bool, String)> {
    let mut v = vec![];
    let loc = |la: &str, lo: &str, el: &str, g: &str| format!("{{\"coords\":{{\"latitude\":{la},\"longitude\":{lo},\"elevation\":{el}}},\"gmt\":{g}}}");
    v.push(("Location", true, loc("39.0", "-77.0", "0.0", "-5.0")));
    v.push(("Location", true, loc("90", "180", "8848", "12")));
    v.push(("Location", true, loc("-90.0", "-180.0", "-420.0", "-12.0")));
    for (la, lo, el, g) in [("90.0001", "0", "0", "0"), ("-91", "0", "0", "0"), ("0", "180.5", "0", "0"), ("0", "-181", "0", "0"), ("0", "0", "8849", "0"), ("0", "0", "-421", "0"), ("0", "0", "0", "12.25"), ("0", "0", "0", "-13"), ("1e999", "0", "0", "0"), ("null", "0", "0", "0"), ("\"45\"", "0", "0", "0")] {
        v.push(("Location", false, loc(la, lo, el, g)));
    }
    v.push(("Coordinates", false, "{\"latitude\":95,\"longitude\":0,\"elevation\":0}".into()));
    v.push(("Coordinates", true, "{\"latitude\":45,\"longitude\":0,\"elevation\":0}".into()));
    let w = |p: &str, t: &str| format!("{{\"pressure\":{p},\"temperature\":{t}}}");
    v.push(("Weather", true, w("1010.0", "14.0")));
    v.push(("Weather", true, w("100", "-90")));
    v.push(("Weather", true, w("1050", "57")));
    for (p, t) in [("5000", "14"), ("99.9", "14"), ("1050.5", "14"), ("1010", "-300"), ("1010", "57.5"), ("1010", "-90.5"), ("-1", "0"), ("0", "0"), ("1e308", "0"), ("1010", "1e308")] {
        v.push(("Weather", false, w(p, t)));
    }
    for (ok, l) in [(true, "48.5"), (true, "-90"), (true, "90.0"), (false, "95.0"), (false, "-90.5"), (false, "1e308"), (false, "null")] {
        for name in ["NearestLatitudeAllPrayersAlways", "NearestLatitudeFajrIshaAlways", "NearestLatitudeFajrIshaInvalid"] {
            v.push(("ExtremeLatitudeMethod", ok, format!("{{\"{name}\":{l}}}")));
            // whole Params document with that policy
            let mut p = Params::new(Method::Mwl);
            p.extreme_latitude_method = ExtremeLatitudeMethod::None;
            let doc = serde_json::to_string(&p).unwrap().replace("\"extreme_latitude_method\":\"None\"", &format!("\"extreme_latitude_method\":{{\"{name}\":{l}}}"));
            v.push(("Params", ok, doc));
        }
    }
    v
}

pub fn run(ctx: &Ctx, st: &mut Stats) {
    st.max_samples = 10;
    let tys = types();
    let mut idx = 0u64;
    let mut r = Rng::new(ctx.seed, 1801, ctx.shard);
    for t in &tys {
        for x in hostile_values(t) {
            idx += 1;
            if !ctx.mine(idx) {
                continue;
            }
            let c = Case { ty: t.name.into(), route: "value".into(), value: Some(X(x)), text: None };
            check(ctx, st, &c);
            st.nontrivial_key(hash64(&format!("v{}{:016x}", t.name, x.to_bits())));
            if idx % 37 == 0 {
                st.sample(|| json!(c));
            }
        }
        for s in TEXTS {
            idx += 1;
            if !ctx.mine(idx) {
                continue;
            }
            let c = Case { ty: t.name.into(), route: "text".into(), value: None, text: Some(s.into()) };
            check(ctx, st, &c);
            st.nontrivial_key(hash64(&format!("t{}{}", t.name, s)));
        }
        for s in JSONS {
            idx += 1;
            if !ctx.mine(idx) {
                continue;
            }
            let c = Case { ty: t.name.into(), route: "json".into(), value: None, text: Some(s.into()) };
            check(ctx, st, &c);
            st.nontrivial_key(hash64(&format!("j{}{}", t.name, s)));
            if idx % 41 == 0 {
                st.sample(|| json!(c));
            }
        }
    }
    for (kind, ok, doc) in composites() {
        idx += 1;
        if !ctx.mine(idx) {
            continue;
        }
        let c = Case { ty: kind.into(), route: "composite".into(), value: None, text: Some(format!("{}\t{}", if ok { "A" } else { "R" }, doc)) };
        check(ctx, st, &c);
        st.nontrivial_key(hash64(&format!("c{}{}", kind, doc)));
        if idx % 13 == 0 {
            st.sample(|| json!(c));
        }
    }
    // seeded composite documents in BOTH shapes serde accepts for a struct: the object form and the positional
    // (array) form, nested either way; a document is acceptable iff every member is in its range
    {
        let nc = ctx.quota(60_000, 3_000_000);
        let mut rc = Rng::new(ctx.seed, 1803, ctx.shard);
        let member = |rc: &mut Rng, lo: f64, hi: f64| -> (f64, bool) {
            let x = match rc.int(0, 11) {
                0 => hi + (hi - lo) * rc.range(1e-12, 2.0),
                1 => lo - (hi - lo) * rc.range(1e-12, 2.0),
                2 => ulp_up(hi),
                3 => ulp_down(lo),
                4 => hi,
                5 => lo,
                6 => 1e9 * rc.sign(),
                _ => rc.range(lo, hi),
            };
            (x, x.is_finite() && x >= lo && x <= hi)
        };
        for _ in 0..nc {
            let (la, a1) = member(&mut rc, -90.0, 90.0);
            let (lo, a2) = member(&mut rc, -180.0, 180.0);
            let (el, a3) = member(&mut rc, -420.0, 8848.0);
            let (g, a4) = member(&mut rc, -12.0, 12.0);
            let (pr, a5) = member(&mut rc, 100.0, 1050.0);
            let (te, a6) = member(&mut rc, -90.0, 57.0);
            let coords_obj = format!("{{\"latitude\":{la:?},\"longitude\":{lo:?},\"elevation\":{el:?}}}");
            let coords_arr = format!("[{la:?},{lo:?},{el:?}]");
            let (kind, ok, doc) = match rc.int(0, 7) {
                0 => ("Coordinates", a1 && a2 && a3, coords_obj),
                1 | 2 => ("Coordinates", a1 && a2 && a3, coords_arr),
                3 => ("Location", a1 && a2 && a3 && a4, format!("{{\"coords\":{coords_arr},\"gmt\":{g:?}}}")),
                4 => ("Location", a1 && a2 && a3 && a4, format!("[{coords_arr},{g:?}]")),
                5 => ("Location", a1 && a2 && a3 && a4, format!("[{coords_obj},{g:?}]")),
                6 => ("Weather", a5 && a6, format!("[{pr:?},{te:?}]")),
                _ => ("Weather", a5 && a6, format!("{{\"pressure\":{pr:?},\"temperature\":{te:?}}}")),
            };
            let c = Case { ty: kind.into(), route: "composite".into(), value: None, text: Some(format!("{}\t{}", if ok { "A" } else { "R" }, doc)) };
            check(ctx, st, &c);
            st.nontrivial_key(hash64(&doc));
        }
        st.add("seeded_composite_documents(object and positional forms)", nc);
    }
    // every "human" value: all decimals with at most two places inside each range (elevation: the hundredths that
    // look like minutes or common fractions, for every whole metre), as a number and as the text a user would type
    // ("5.30", "-4.3"): what goes in must come out
    {
        let mut idx3 = 0u64;
        for t in tys.iter() {
            let (lo, hi) = ((t.lo * 100.0).ceil() as i64, (t.hi * 100.0).floor() as i64);
            let sparse = hi - lo > 200_000;
            for k in lo..=hi {
                if sparse && ![0, 1, 5, 10, 15, 25, 30, 45, 50, 59, 60, 75, 99].contains(&(k.rem_euclid(100))) {
                    continue;
                }
                idx3 += 1;
                if !ctx.mine(idx3) {
                    continue;
                }
                let text = format!("{}{}.{:02}", if k < 0 { "-" } else { "" }, k.abs() / 100, k.abs() % 100);
                let x: f64 = text.parse().unwrap();
                let c = Case { ty: t.name.into(), route: "value".into(), value: Some(X(x)), text: None };
                check(ctx, st, &c);
                if t.from_str.is_some() {
                    let short = format!("{x}");
                    for tx in [text.clone(), short] {
                        let c = Case { ty: t.name.into(), route: "text".into(), value: None, text: Some(tx) };
                        check(ctx, st, &c);
                    }
                }
                st.nontrivial_key(x.to_bits() ^ hash64(t.name) ^ 0x77);
            }
        }
        st.add("two_decimal_values_swept(all types)", idx3);
    }
    // seeded random values in / just out of range / anywhere, random bit patterns
    let n = ctx.quota(600_000, 60_000_000);
    for _ in 0..n {
        let t = &tys[r.int(0, 5) as usize];
        let w = t.hi - t.lo;
        let x = match r.int(0, 9) {
            0 => f64::from_bits(r.next()),
            1 => t.hi + r.f() * 1e-9 * w,
            2 => t.lo - r.f() * 1e-9 * w,
            3 => r.range(t.lo - w, t.hi + w),
            4 => (r.range(t.lo - 2.0, t.hi + 2.0)).round(),
            5 => t.hi * (1.0 + r.f() * 1e-15),
            _ => r.range(t.lo, t.hi),
        };
        let c = Case { ty: t.name.into(), route: "value".into(), value: Some(X(x)), text: None };
        check(ctx, st, &c);
        st.nontrivial_key(x.to_bits() ^ hash64(t.name));
    }
    // seeded random garbage text: lengths 1..100, ASCII and multi-byte UTF-8 mixed (error paths that slice or echo
    // the input must not panic), pushed through every FromStr type
    let alphabet: Vec<char> = "0123456789+-.eE _xnaif°é٤４𝟜\u{0}\t,".chars().collect();
    let ng = ctx.quota(60_000, 3_000_000);
    for k in 0..ng {
        let len = r.int(1, 100) as usize;
        let mut t = String::new();
        for _ in 0..len {
            t.push(*r.pick(&alphabet));
        }
        if k % 3 == 0 {
            // mostly-numeric prefix followed by garbage
            t = format!("{}{}", r.range(-200.0, 200.0), t);
        }
        let ty = tys[r.int(0, 3) as usize].name;
        let c = Case { ty: ty.into(), route: "text".into(), value: None, text: Some(t) };
        check(ctx, st, &c);
        if k < 2 {
            st.sample(|| json!(c));
        }
    }
    st.add("random_garbage_texts", ng);
    // very long but well-formed decimals (in range): trailing / leading zeros, long mantissas with a compensating exponent
    for t in tys.iter().filter(|t| t.from_str.is_some()) {
        for z in [300usize, 801, 1000, 5000] {
            let mid = (t.lo + t.hi) / 4.0;
            for text in [
                format!("{}.{}", mid.trunc() as i64, "0".repeat(z)),
                format!("{}{}", "0".repeat(z), mid.trunc().abs() as i64),
                format!("{}{}e-{}", mid.trunc() as i64, "0".repeat(z), z),
                format!("0.{}1", "0".repeat(z)),
                format!("{}.{}5", t.hi as i64 - 1, "9".repeat(z)),
            ] {
                let c = Case { ty: t.name.into(), route: "text".into(), value: None, text: Some(text) };
                check(ctx, st, &c);
            }
        }
    }
    st.count("long_well_formed_texts");
    // the SAME text pushed through all four text routes one after the other, in a seeded order (a value accepted
    // by a wider type must still be rejected by a narrower one: no state may leak between the routes)
    let nx = ctx.quota(100_000, 6_000_000);
    let text_types: Vec<&Ty> = tys.iter().filter(|t| t.from_str.is_some()).collect();
    for _ in 0..nx {
        let x = match r.int(0, 5) {
            0 => r.range(-13.0, 13.0),
            1 => r.range(-100.0, 100.0),
            2 => r.range(-200.0, 200.0),
            3 => r.range(-500.0, 9000.0),
            4 => r.int(-200, 9000) as f64,
            _ => r.range(-9000.0, 9000.0),
        };
        let mut order: Vec<usize> = (0..text_types.len()).collect();
        for i in (1..order.len()).rev() {
            order.swap(i, r.int(0, i as i64) as usize);
        }
        let s = format!("{x:?}");
        for i in order {
            let t = text_types[i];
            let c = Case { ty: t.name.into(), route: "text".into(), value: None, text: Some(s.clone()) };
            check(ctx, st, &c);
        }
        st.nontrivial_key(x.to_bits() ^ 0x5555);
    }
    st.add("cross_type_same_text_sequences", nx);
    // fault injection, then the fixed text corpus once more (malformed input seen earlier must not change what is accepted later)
    super::out_of_domain_calls(2);
    for t in &tys {
        for s in TEXTS {
            let c = Case { ty: t.name.into(), route: "text".into(), value: None, text: Some(s.into()) };
            check(ctx, st, &c);
        }
    }
    st.extra.insert("rule".into(), json!("per type: hostile values (both bounds +-1 ulp, +-0, subnormals, NaN payloads, +-inf, huge) and seeded random values pushed through every route that exists for the type (TryFrom<f64>; FromStr on shortest round-trip and exponent spellings; serde_json on float and integer spellings, judged against serde_json's own f64 reading of the same text); fixed text and JSON corpora (malformed, whitespace, hex, underscores, non-ASCII digits, nan/inf spellings, 1e999, null/string/array/bool); composite Location/Coordinates/Weather/ExtremeLatitudeMethod/Params documents with one out-of-range field; every case is non-trivial; distinct by (type, route, input) hash"));
    st.note("Pressure and Temperature have no FromStr route in the public API: for them 'the routes that exist' are TryFrom<f64> and JSON.");
}
