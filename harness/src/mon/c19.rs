//! C19 support — the expected output of the CLI for a list of command lines, computed by the library itself
//! (same tree). The CLI runs, the comparison and the verdicts live in the orchestrator (`check`).
use crate::util::*;
use serde::Deserialize;
use serde_json::{json, Value};

#[derive(Deserialize)]
struct Q {
    method: usize,
    lat: f64,
    lon: f64,
    elev: f64,
    gmt: f64,
    start: String,
    end: String,
}

pub fn expect(inp: &str, out: &str) -> i32 {
    let qs: Vec<Q> = serde_json::from_str(&std::fs::read_to_string(inp).expect("read")).expect("parse");
    let mut res: Vec<Value> = vec![];
    for q in qs {
        let p = Params::new(METHODS[q.method]);
        let l = loc(q.lat, q.lon, q.elev, q.gmt);
        let dr = DateRange::from(s2d(&q.start)..=s2d(&q.end));
        let r = super::guarded(|| {
            let map = prayer_times_dt_rng(&p, l, &dr);
            let js = serde_json::to_string(&map).unwrap();
            let listing: Vec<Value> = map
                .iter()
                .map(|(d, m)| {
                    let entries: Vec<Value> = m
                        .iter()
                        .map(|(pr, t)| json!([pr.to_string(), match t { Ok(t) => t.to_string(), Err(_) => "Invalid".to_string() }]))
                        .collect();
                    json!({"hijri": HijriDate::from(*d).to_string(), "date": d2s(*d), "long_date": d.format("%A, %B %d, %Y").to_string(), "entries": entries})
                })
                .collect();
            json!({"json": js, "listing": listing, "days": map.len()})
        });
        res.push(match r {
            Ok(v) => v,
            Err(pm) => json!({"panic": pm}),
        });
    }
    std::fs::write(out, serde_json::to_string(&res).unwrap()).expect("write");
    0
}
