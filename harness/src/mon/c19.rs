//! C19 support — the expected output of the CLI for a list of command lines, computed by the library itself
//! (same tree). The CLI runs, the comparison and the verdicts live in the orchestrator (`check`).
use crate::util::*;
use serde::Deserialize;
use serde_json::{json, Value};

/// floats arrive as decimal STRINGS and are parsed with std (correctly rounded): serde_json's default number
/// parser may be 1 ulp off on 17-digit input, which matters at the rounding thresholds this module aims at
#[derive(Deserialize)]
struct QRaw {
    method: usize,
    lat: String,
    lon: String,
    elev: String,
    gmt: String,
    start: String,
    end: String,
}
struct Q {
    method: usize,
    lat: f64,
    lon: f64,
    elev: f64,
    gmt: f64,
    start: String,
    end: String,
}
fn read_queries(inp: &str) -> Vec<Q> {
    let raw: Vec<QRaw> = serde_json::from_str(&std::fs::read_to_string(inp).expect("read")).expect("parse");
    raw.into_iter()
        .map(|r| Q { method: r.method, lat: r.lat.parse().unwrap(), lon: r.lon.parse().unwrap(), elev: r.elev.parse().unwrap(), gmt: r.gmt.parse().unwrap(), start: r.start, end: r.end })
        .collect()
}

pub fn expect(inp: &str, out: &str) -> i32 {
    let qs = read_queries(inp);
    let mut res: Vec<Value> = vec![];
    for q in qs {
        let p = Params::new(METHODS[q.method]);
        let l = loc(q.lat, q.lon, q.elev, q.gmt);
        let dr = DateRange::from(s2d(&q.start)..=s2d(&q.end));
        let r = super::guarded(|| {
            let map = prayer_times_dt_rng(&p, l, &dr);
            let js = serde_json::to_string(&map).unwrap();
            let listing: Vec<Value> = map
                .iter()
                .map(|(d, m)| {
                    let entries: Vec<Value> = m
                        .iter()
                        .map(|(pr, t)| json!([pr.to_string(), match t { Ok(t) => t.to_string(), Err(_) => "Invalid".to_string() }]))
                        .collect();
                    json!({"hijri": HijriDate::from(*d).to_string(), "date": d2s(*d), "long_date": d.format("%A, %B %d, %Y").to_string(), "entries": entries})
                })
                .collect();
            json!({"json": js, "listing": listing, "days": map.len()})
        });
        res.push(match r {
            Ok(v) => v,
            Err(pm) => json!({"panic": pm}),
        });
    }
    std::fs::write(out, serde_json::to_string(&res).unwrap()).expect("write");
    0
}

/// For each query: bisect the longitude down to adjacent f64 values so that the unrounded Dhuhr crosses hh:mm:30
/// (the rounding threshold of the CLI's default mode). The orchestrator runs its save/load round trips exactly
/// there: a parameter file that does not hold the run's coordinates bit-for-bit flips the rounded minute.
pub fn seek_rounding(inp: &str, out: &str) -> i32 {
    use chrono::Timelike;
    let qs = read_queries(inp);
    let mut res: Vec<Value> = vec![];
    for q in qs {
        let mut p = Params::new(METHODS[q.method]);
        p.round_seconds = RoundSeconds::None;
        let date = s2d(&q.start);
        let dh = |lon: f64| -> Option<f64> {
            super::guarded(|| prayer_times_dt(&p, loc(q.lat, lon, q.elev, q.gmt), date, None)).ok().and_then(|r| r[&Prayer::Dhuhr].ok()).map(|t| t.time.num_seconds_from_midnight() as f64)
        };
        let found = (|| {
            let d0 = dh(q.lon)?;
            // Dhuhr falls 240 s per degree eastwards: aim at the next hh:mm:30 below the current value
            let target = ((d0 - 30.0) / 60.0).floor() * 60.0 + 30.0;
            let lon1 = q.lon + (d0 - target) / 240.0 + 0.01;
            if lon1 > 180.0 || target <= 60.0 {
                return None;
            }
            if dh(lon1)? >= target {
                return None;
            }
            let (a, b) = super::bisect(q.lon, lon1, |lon| dh(lon).map(|d| d >= target).unwrap_or(true));
            Some((a, b))
        })();
        res.push(match found {
            Some((a, b)) => json!({"lon_a": format!("{a:?}"), "lon_b": format!("{b:?}")}),
            None => json!(null),
        });
    }
    std::fs::write(out, serde_json::to_string(&res).unwrap()).expect("write");
    0
}

/// ISO dates of every 1 Muharram in 1600..2399 by the reference (tabular) calendar — the orchestrator aims
/// terminal listings at the days around Hijri year changes.
pub fn hijri_newyears(out: &str) -> i32 {
    let mut v: Vec<String> = vec![];
    for day in day_lo()..=day_hi() {
        let d = from_ce(day);
        let (_, _, m, dd) = crate::oracle::tabular(d);
        if m == 1 && dd == 1 {
            v.push(d2s(d));
        }
    }
    std::fs::write(out, serde_json::to_string(&v).unwrap()).expect("write");
    0
}
