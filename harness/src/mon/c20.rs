//! C20 — clock times are consistent across time zones and meridians (paired executions).
use super::call;
use crate::gen;
use crate::oracle as o;
use crate::rec::{Ctx, Stats};
use crate::util::*;
use serde::{Deserialize, Serialize};
use serde_json::json;

#[derive(Serialize, Deserialize, Clone, Debug)]
pub struct Case {
    pub site: Site,
    pub date: String,
    pub p: PSpec,
    /// "gmt": gmt += d hours; "meridian": lon += 15 d degrees and gmt += d hours (d = 1)
    pub kind: String,
    pub d: X,
}

const TOL: f64 = 10.0;
const SEAM: f64 = 600.0;
const ADJ_DAY_BOUND: f64 = 250.0;

pub fn check(_ctx: &Ctx, st: &mut Stats, c: &Case) {
    let p = c.p.build();
    let date = s2d(&c.date);
    let d = c.d.0;
    let s2 = match c.kind.as_str() {
        "gmt" => Site::new(c.site.lat.0, c.site.lon.0, c.site.elev.0, c.site.gmt.0 + d),
        _ => Site::new(c.site.lat.0, c.site.lon.0 + 15.0 * d, c.site.elev.0, c.site.gmt.0 + d),
    };
    if !(-12.0..=12.0).contains(&s2.gmt.0) || !(-180.0..=180.0).contains(&s2.lon.0) {
        st.count("shifted_values_out_of_range(not generated)");
        return;
    }
    let (a, b) = match (call(st, &p, c.site.loc(), date, None), call(st, &p, s2.loc(), date, None)) {
        (Ok(a), Ok(b)) => (a, b),
        (Err(_), Err(_)) => {
            st.count("panicked_cannot_decide(see C07)");
            return;
        }
        (ra, rb) => {
            // one member of the pair reports its times, the other reports nothing at all
            let pm = ra.as_ref().err().or(rb.as_ref().err()).cloned().unwrap_or_default();
            st.violate("validity_changes", c, json!({"why": "one member of the pair panicked instead of reporting times, the other did not", "panic": pm, "base_panicked": ra.is_err(), "shifted_panicked": rb.is_err()}));
            return;
        }
    };
    st.decided += 1;
    let expected_shift = if c.kind == "gmt" { d * 3600.0 } else { 0.0 };
    let observational = d.abs() > 1.0;
    let both = || json!({"base": res_json(&a), "shifted": res_json(&b)});
    // is the pair (base, shifted) of one entry on the midnight seam?
    let seam_of = |pr: Prayer| -> bool {
        match (a[&pr], b[&pr]) {
            (Ok(x), Ok(y)) => {
                let (xs, ys) = (secs(&x), secs(&y));
                let exp = xs + expected_shift;
                !(0.0..86400.0).contains(&exp) || near_midnight(exp.rem_euclid(86400.0), SEAM) || near_midnight(ys, SEAM) || near_midnight(xs, SEAM)
            }
            _ => false,
        }
    };
    // Fajr/Imsaak/Asr/Isha are defined relative to that day's Dhuhr (interval-defined ones relative to
    // Shurooq/Maghrib): when the anchor's pair straddles the seam the two runs anchor on different days.
    let anchor_of = |pr: Prayer| -> Option<Prayer> {
        match pr {
            Prayer::Isha if p.intervals[&Prayer::Isha] != 0.0 => Some(Prayer::Maghrib),
            Prayer::Fajr | Prayer::Imsaak if p.intervals[&Prayer::Fajr] != 0.0 => Some(Prayer::Shurooq),
            Prayer::Fajr | Prayer::Imsaak | Prayer::Asr | Prayer::Isha => Some(Prayer::Dhuhr),
            _ => None,
        }
    };
    for pr in SEVEN {
        match (a[&pr], b[&pr]) {
            (Ok(x), Ok(y)) => {
                let xs = secs(&x);
                let ys = secs(&y);
                let exp = xs + expected_shift;
                let dev = off(ys, exp.rem_euclid(86400.0));
                let seam = seam_of(pr) || anchor_of(pr).map(|a| seam_of(a)).unwrap_or(false);
                if observational {
                    st.margin(&format!("observation_only.multi_hour_jump_deviation_s.d={}", d.abs()), dev, f64::INFINITY, || json!({"case": c, "prayer": format!("{pr:?}")}));
                    continue;
                }
                if seam {
                    st.count("seam_pairs");
                    st.margin("seam_pair_deviation_s(adjacent-day bound)", dev, ADJ_DAY_BOUND, || json!({"case": c, "prayer": format!("{pr:?}"), "results": both()}));
                    if dev.abs() > ADJ_DAY_BOUND {
                        st.violate("seam_pair_exceeds_adjacent_day_bound", c, json!({"prayer": format!("{pr:?}"), "deviation_s": dev, "results": both()}));
                    }
                    continue;
                }
                st.count("entry_checks");
                let name = if c.kind == "gmt" { "gmt_shift_deviation_s" } else { "meridian_shift_deviation_s" };
                st.margin(name, dev, TOL, || json!({"case": c, "prayer": format!("{pr:?}"), "results": both()}));
                if dev.abs() > TOL {
                    st.violate(if c.kind == "gmt" { "gmt_shift" } else { "meridian_shift" }, c, json!({"prayer": format!("{pr:?}"), "deviation_s": dev, "expected_shift_s": expected_shift, "results": both(), "ra_wrap_day_base": o::ra_wrap_day(date, c.site.gmt.0), "ra_wrap_day_shifted": o::ra_wrap_day(date, s2.gmt.0)}));
                }
            }
            (Err(_), Err(_)) => {}
            _ => {
                if observational {
                    continue;
                }
                // grazing twilight: the defining altitude within 0.05 deg of the Sun's extreme altitude that day
                let ang = match pr {
                    Prayer::Fajr => Some(p.angles[&Prayer::Fajr]),
                    Prayer::Isha => Some(p.angles[&Prayer::Isha]),
                    Prayer::Imsaak => Some(p.angles[&Prayer::Fajr] + p.angles[&Prayer::Imsaak]),
                    _ => None,
                };
                let dd = o::date_dec(date, c.site.gmt.0);
                let amin = -90.0 + (c.site.lat.0 + dd).abs();
                let grazing = ang.map(|a| (-a - amin).abs() < 0.05).unwrap_or(false);
                if grazing {
                    st.count("exempt.grazing_twilight_validity_flip");
                } else {
                    st.violate("validity_changes", c, json!({"prayer": format!("{pr:?}"), "results": both()}));
                }
            }
        }
    }
}

fn gen_case(r: &mut Rng) -> Case {
    let la = match r.int(0, 9) {
        0 => 45.0 * r.sign(),
        1 | 2 => r.range(40.0, 45.0) * r.sign(),
        _ => r.range(-45.0, 45.0),
    };
    let kind = if r.chance(0.6) { "gmt" } else { "meridian" };
    let d = if kind == "meridian" {
        1.0
    } else {
        match r.int(0, 19) {
            0 => *r.pick(&[2.0, 3.0, 6.0, 12.0]) * r.sign(),
            1..=4 => r.range(0.01, 1.0) * r.sign(), // real-valued shifts (historic mean-time offsets are not whole minutes)
            _ => *r.pick(&[0.25, 0.5, 0.75, 1.0, 1.0]) * r.sign(),
        }
    };
    let lon = if kind == "meridian" { r.range(-180.0, 165.0) } else { gen::any_lon(r) };
    // gmt anywhere such that the shifted value stays in range (chains of unit steps cover every offset)
    let (glo, ghi) = ((-12.0f64).max(-12.0 - d), (12.0f64).min(12.0 - d));
    let gmt = match r.int(0, 5) {
        0 => (r.range(glo, ghi) * 4.0).round() / 4.0,
        // offsets as people write them: one or two decimals (5.3, -4.45)
        4 => (r.range(glo, ghi) * 10.0).round() / 10.0,
        5 => (r.range(glo, ghi) * 100.0).round() / 100.0,
        1 => r.range(glo, ghi),
        _ => (lon / 15.0 + r.range(-2.0, 2.0)).clamp(glo, ghi),
    }
    .clamp(glo, ghi);
    let mut p = PSpec::new(r.int(0, 8) as usize);
    // the property quantifies over the 9 named methods (no custom angles: grazing 22 deg twilight at |lat| 45 is outside it)
    if r.chance(0.3) {
        p.hanafi = Some(r.chance(0.5));
    }
    let date = if r.chance(0.3) { hostile_date(r) } else { rand_date(r) };
    Case {
        site: Site::new(la, lon, gen::any_elev(r), gmt),
        date: d2s(date),
        p,
        kind: kind.into(),
        d: X(d),
    }
}

pub fn run(ctx: &Ctx, st: &mut Stats) {
    let n = ctx.quota(1_500_000, 150_000_000);
    let mut r = Rng::new(ctx.seed, 2001, ctx.shard);
    // chains of 24 unit steps across [-12, 12] for corpus sites (each link is a checked pair)
    let corpus = gen::corpus_sites(45.0);
    let mut idx = 0u64;
    for s in corpus.iter() {
        idx += 1;
        if !ctx.mine(idx) {
            continue;
        }
        let date = d2s(hostile_date(&mut r));
        let m = r.int(0, 8) as usize;
        for g in -12..12 {
            let c = Case {
                site: Site::new(s.lat.0, s.lon.0, s.elev.0, g as f64),
                date: date.clone(),
                p: PSpec::new(m),
                kind: "gmt".into(),
                d: X(1.0),
            };
            check(ctx, st, &c);
            st.count("chain_links");
        }
    }
    // grazing corner of the domain: |lat| = 45 (and just inside) in the five days around the local summer solstice of
    // EVERY year — the deepest twilight of the named methods (Egyptian Imsaak, 21 deg) barely exists there in the
    // early centuries, its hour angle is within a degree of 180 — each as a full chain of 24 unit GMT steps
    {
        let lats: &[f64] = if ctx.thorough { &[45.0, 44.9995, 44.999, 44.998, 44.99, 44.9] } else { &[45.0, 44.999] };
        let mut idx2 = 0u64;
        for year in 1600..=2399 {
            for &la0 in lats {
                for sgn in [1.0, -1.0] {
                    idx2 += 1;
                    if !ctx.mine(idx2) {
                        continue;
                    }
                    let la = la0 * sgn;
                    let mo = if la > 0.0 { 6 } else { 12 };
                    let lon = r.range(-180.0, 180.0);
                    let el = gen::any_elev(&mut r);
                    for dd in 0..5u32 {
                        let date = d2s(ymd(year, mo, 19 + dd));
                        for m in 0..9usize {
                            if !ctx.thorough && (m + dd as usize + year as usize) % 3 != 0 && m != 1 && m != 2 {
                                continue; // quick: a third of the methods per day, the two Egyptian methods (deepest twilights) always
                            }
                            for g in -12..12 {
                                let c = Case { site: Site::new(la, lon, el, g as f64), date: date.clone(), p: PSpec::new(m), kind: "gmt".into(), d: X(1.0) };
                                check(ctx, st, &c);
                            }
                            st.count("grazing_corner_chains(|lat| 45, solstice, 24 unit steps)");
                        }
                    }
                }
            }
        }
    }
    for k in 0..n {
        let c = gen_case(&mut r);
        check(ctx, st, &c);
        st.nontrivial_key(hash64(&format!("{:?}", c)));
        if k < 4 {
            st.sample(|| json!(c));
        }
        if k % 16 == 0 {
            st.count(&format!("hist.{}.d={}", c.kind, c.d.0));
        }
    }
    st.extra.insert("rule".into(), json!("seeded random pairs: (gmt, gmt+d) with |d| in {0.25,0.5,0.75,1} h and (lon, gmt) vs (lon+15, gmt+1), |lat|<=45 with extra mass on 40..45, all methods, dates 1600..2399; chains of 24 unit steps across [-12,12] for the corpus sites; multi-hour jumps executed as observation only; every pair is judged entry by entry (seam pairs against the adjacent-day bound); distinct by input hash"));
}
