//! One monitor per property. Shared: guarded call wrapper, dispatch.
use crate::rec::{Ctx, Stats};
use crate::util::*;
use chrono::NaiveDate;
use serde_json::Value;
use std::cell::RefCell;
use std::panic::{catch_unwind, AssertUnwindSafe};

pub mod c01;
pub mod c02;
pub mod c05;
pub mod c06;
pub mod c07;
pub mod c08;
pub mod c09;
pub mod c10;
pub mod c11;
pub mod c12;
pub mod c13;
pub mod c14;
pub mod c15;
pub mod c16;
pub mod c17;
pub mod c18;
pub mod c19;
pub mod c20;

thread_local! {
    pub static LAST_PANIC: RefCell<String> = RefCell::new(String::new());
}

/// `prayer_times_dt` under catch_unwind; Err carries "file:line: message" of the panic.
pub fn call(
    st: &mut Stats,
    p: &Params,
    l: Location,
    d: NaiveDate,
    w: Option<Weather>,
) -> Result<Res, String> {
    st.evaluations += 1;
    st.tick();
    match catch_unwind(AssertUnwindSafe(|| prayer_times_dt(p, l, d, w))) {
        Ok(r) => Ok(r),
        Err(_) => Err(LAST_PANIC.with(|p| p.borrow().clone())),
    }
}

pub fn guarded<T>(f: impl FnOnce() -> T) -> Result<T, String> {
    match catch_unwind(AssertUnwindSafe(f)) {
        Ok(r) => Ok(r),
        Err(_) => Err(LAST_PANIC.with(|p| p.borrow().clone())),
    }
}

pub fn run(ctx: &Ctx, st: &mut Stats) -> bool {
    match ctx.prop.as_str() {
        "C01" => c01::run(ctx, st),
        "C02" => c02::run(ctx, st, "C02"),
        "C03" => c02::run(ctx, st, "C03"),
        "C04" => c02::run(ctx, st, "C04"),
        "C05" => c05::run(ctx, st),
        "C06" => c06::run(ctx, st),
        "C07" => c07::run(ctx, st),
        "C08" => c08::run(ctx, st),
        "C09" => c09::run(ctx, st),
        "C10" => c10::run(ctx, st),
        "C11" => c11::run(ctx, st),
        "C12" => c12::run(ctx, st),
        "C13" => c13::run(ctx, st),
        "C14" => c14::run(ctx, st),
        "C15" => c15::run(ctx, st),
        "C16" => c16::run(ctx, st),
        "C17" => c17::run(ctx, st),
        "C18" => c18::run(ctx, st),
        "C20" => c20::run(ctx, st),
        _ => return false,
    }
    true
}

pub fn replay(ctx: &Ctx, id: &str, case: &Value, st: &mut Stats) -> bool {
    macro_rules! rp {
        ($m:ident) => {{
            match serde_json::from_value(case.clone()) {
                Ok(c) => {
                    $m::check(ctx, st, &c);
                    true
                }
                Err(e) => {
                    eprintln!("cannot parse case: {e}");
                    false
                }
            }
        }};
    }
    match id {
        "C01" => rp!(c01),
        "C02" | "C03" | "C04" => match serde_json::from_value(case.clone()) {
            Ok(c) => {
                c02::check(ctx, st, &c, id);
                true
            }
            Err(e) => {
                eprintln!("cannot parse case: {e}");
                false
            }
        },
        "C05" => rp!(c05),
        "C06" => rp!(c06),
        "C07" => rp!(c07),
        "C08" => rp!(c08),
        "C09" => rp!(c09),
        "C10" => rp!(c10),
        "C11" => rp!(c11),
        "C12" => rp!(c12),
        "C13" => rp!(c13),
        "C14" => rp!(c14),
        "C15" => rp!(c15),
        "C16" => rp!(c16),
        "C17" => rp!(c17),
        "C18" => rp!(c18),
        "C20" => rp!(c20),
        _ => false,
    }
}

/// single guarded execution in its own process (exit code 0 ok / 10.. encoded outcome)
pub fn one(id: &str, case: &Value) -> i32 {
    match id {
        "C14" => c14::one(case),
        _ => 2,
    }
}
