//! One monitor per property. Shared: guarded call wrapper, dispatch.
use crate::rec::{Ctx, Stats};
use crate::util::*;
use chrono::NaiveDate;
use serde_json::Value;
use std::cell::RefCell;
use std::panic::{catch_unwind, AssertUnwindSafe};

pub mod c01;
pub mod c02;
pub mod c05;
pub mod c06;
pub mod c07;
pub mod c08;
pub mod c09;
pub mod c10;
pub mod c11;
pub mod c12;
pub mod c13;
pub mod c14;
pub mod c15;
pub mod c16;
pub mod c17;
pub mod c18;
pub mod c19;
pub mod c20;

thread_local! {
    pub static LAST_PANIC: RefCell<String> = RefCell::new(String::new());
}
/// the most recent panic message of any thread (used where thread-locals are not available: thread-exit probes)
pub static LAST_PANIC_ANY_THREAD: std::sync::Mutex<String> = std::sync::Mutex::new(String::new());

/// Thread-exit probe: a closure that runs from the destructor of a thread-local of the calling thread, i.e. while the
/// thread is shutting down. Install it BEFORE the thread's first library call: thread-locals are destroyed in
/// reverse order of first use, so any per-thread state the library set up later is already gone when the closure
/// runs — a library call made there must still work (applications do convert dates / compute times in `Drop`
/// implementations of per-thread objects).
pub struct AtExit(pub Option<Box<dyn FnOnce() + Send>>);
impl Drop for AtExit {
    fn drop(&mut self) {
        if let Some(f) = self.0.take() {
            f()
        }
    }
}
thread_local! {
    static AT_EXIT: RefCell<AtExit> = RefCell::new(AtExit(None));
}
pub fn at_thread_exit(f: impl FnOnce() + Send + 'static) {
    AT_EXIT.with(|a| a.borrow_mut().0 = Some(Box::new(f)));
}
/// catch_unwind without touching this thread's locals; Err carries the message recorded by the panic hook
pub fn guarded_no_tls<T>(f: impl FnOnce() -> T) -> Result<T, String> {
    match catch_unwind(AssertUnwindSafe(f)) {
        Ok(r) => Ok(r),
        Err(_) => Err(LAST_PANIC_ANY_THREAD.lock().map(|g| g.clone()).unwrap_or_default()),
    }
}

thread_local! {
    /// an earlier sampled call (inputs + result) kept for the history-independence probe
    static PAST_CALL: RefCell<Option<(Params, Location, NaiveDate, Option<Weather>, Res)>> = RefCell::new(None);
    static OLD_CALL: RefCell<Option<(Params, Location, NaiveDate, Option<Weather>, Res)>> = RefCell::new(None);
    static PREV_INPUT: std::cell::Cell<Option<(Location, NaiveDate)>> = const { std::cell::Cell::new(None) };
}
const PROBE_EVERY_DEFAULT: u64 = 509;

/// `prayer_times_dt` under catch_unwind; Err carries "file:line: message" of the panic.
///
/// History-independence probe (every 509th call): the same input is re-executed (a) on a fresh thread (no
/// thread-local state) and (b) much later on the same thread (after hundreds of unrelated calls); a result that
/// differs means the value depends on the call history (a stale cache / memo), which no property here allows.
pub fn call(
    st: &mut Stats,
    p: &Params,
    l: Location,
    d: NaiveDate,
    w: Option<Weather>,
) -> Result<Res, String> {
    st.evaluations += 1;
    st.tick();
    if st.evaluations % 20_011 == 0 {
        // fault injection between in-domain calls, alternately on this thread and on another one
        let kind = 1 + (st.evaluations / 20_011) % 4;
        st.count("fault_injection.out_of_domain_call_groups");
        if (st.evaluations / 20_011) % 2 == 0 {
            out_of_domain_calls(kind);
        } else {
            let _ = std::thread::scope(|s| s.spawn(|| out_of_domain_calls(kind)).join());
        }
    }
    if st.evaluations % 20_011 == 0 || st.evaluations % 7_919 == 0 {
        // the SAME input with a broken Params value (a missing key: panics, also in the original), caught, right
        // before the valid call: a failed request followed by its corrected retry
        let mut pb = p.clone();
        match (st.evaluations / 7_919) % 4 {
            0 => {
                pb.angles.remove(&Prayer::Isha);
            }
            1 => {
                pb.angles.remove(&Prayer::Fajr);
            }
            2 => {
                pb.minutes.remove(&Prayer::Asr);
            }
            _ => {
                pb.intervals.remove(&Prayer::Isha);
            }
        }
        st.count("fault_injection.failed_request_then_retry");
        // alternately the failed request is for the SAME place and date, or for the place and date of the previous
        // in-domain call (same weather, same call path)
        let (lb, db) = if (st.evaluations / 7_919) % 2 == 0 { (l, d) } else { PREV_INPUT.with(|c| c.get()).unwrap_or((l, d)) };
        let _ = catch_unwind(AssertUnwindSafe(|| prayer_times_dt(&pb, lb, db, w)));
    }
    PREV_INPUT.with(|c| c.set(Some((l, d))));
    let r = match catch_unwind(AssertUnwindSafe(|| prayer_times_dt(p, l, d, w))) {
        Ok(r) => Ok(r),
        Err(_) => Err(LAST_PANIC.with(|p| p.borrow().clone())),
    };
    // C07 (never panics) probes much more often: history-dependent panics need a predecessor call
    let probe_every = if st.prop == "C07" { 8 } else { PROBE_EVERY_DEFAULT };
    if st.evaluations % 50_021 == 0 {
        // long-delay re-execution: an input first executed >= 50 000 calls (hundreds of thousands of internal
        // ephemeris evaluations) ago must still give the same result
        if let Ok(res) = &r {
            let past = OLD_CALL.with(|c| c.borrow_mut().take());
            if let Some((pp, pl, pd, pw, pres)) = past {
                st.count("history_probe.long_delay_reexecutions");
                match catch_unwind(AssertUnwindSafe(|| prayer_times_dt(&pp, pl, pd, pw))) {
                    Ok(again) => {
                        if again != pres {
                            let v = serde_json::json!({"history_probe": true, "date": d2s(pd), "location": format!("{pl:?}"), "params": serde_json::to_value(&pp).unwrap_or(Value::Null)});
                            st.violate("result_depends_on_call_history", &v, serde_json::json!({"probe": "same input re-executed >= 50 000 calls later", "first": res_json(&pres), "later": res_json(&again)}));
                        }
                    }
                    Err(_) => st.count("panicked_cannot_decide(see C07)"),
                }
            }
            OLD_CALL.with(|c| *c.borrow_mut() = Some((p.clone(), l, d, w, res.clone())));
        }
    }
    if st.evaluations % probe_every == 0 {
        if let Ok(res) = &r {
            let describe = |p: &Params, l: Location, d: NaiveDate, w: Option<Weather>| {
                serde_json::json!({"history_probe": true, "date": d2s(d), "location": format!("{l:?}"), "weather": format!("{w:?}"),
                    "params": serde_json::to_value(p).unwrap_or(Value::Null)})
            };
            // (a) fresh thread
            let fresh = std::thread::scope(|s| s.spawn(|| catch_unwind(AssertUnwindSafe(|| prayer_times_dt(p, l, d, w)))).join());
            st.count("history_probe.fresh_thread_reexecutions");
            if let Ok(Ok(f)) = fresh {
                if &f != res {
                    st.violate("result_depends_on_call_history", &describe(p, l, d, w), serde_json::json!({"probe": "same input on a fresh thread", "in_sequence": res_json(res), "fresh_thread": res_json(&f)}));
                }
            }
            // (b) an input sampled ~509 calls ago, re-executed now on this thread
            let past = PAST_CALL.with(|c| c.borrow_mut().take());
            if let Some((pp, pl, pd, pw, pres)) = past {
                st.count("history_probe.delayed_reexecutions");
                if let Ok(again) = catch_unwind(AssertUnwindSafe(|| prayer_times_dt(&pp, pl, pd, pw))) {
                    if again != pres {
                        st.violate("result_depends_on_call_history", &describe(&pp, pl, pd, pw), serde_json::json!({"probe": "same input re-executed later on the same thread", "first": res_json(&pres), "later": res_json(&again)}));
                    }
                }
            }
            PAST_CALL.with(|c| *c.borrow_mut() = Some((p.clone(), l, d, w, res.clone())));
            // (c) cache-poisoning probe: call a NEAR-DUPLICATE input (one field nudged), then the original again.
            //     A memo keyed too coarsely (or missing a field) hands the neighbour's data back to the original.
            let kind = (st.evaluations / probe_every) % 17;
            let (mut p2, mut l2, mut d2, mut w2) = (p.clone(), l, d, w);
            let g = f64::from(l.gmt);
            let lo = f64::from(l.coords.longitude);
            let la = f64::from(l.coords.latitude);
            let el = f64::from(l.coords.elevation);
            let nudge = |v: f64, dv: f64, a: f64, b: f64| if v + dv <= b && v + dv >= a { v + dv } else { v - dv };
            match kind {
                0 => l2.gmt = Gmt::try_from(nudge(g, 0.005, -12.0, 12.0)).unwrap(),
                1 => l2.gmt = Gmt::try_from(nudge(g, 0.5, -12.0, 12.0)).unwrap(),
                2 => l2.coords.longitude = Longitude::try_from(nudge(lo, 1e-4, -180.0, 180.0)).unwrap(),
                3 => l2.coords.latitude = Latitude::try_from(nudge(la, 1e-4, -90.0, 90.0)).unwrap(),
                4 => l2.coords.elevation = Elevation::try_from(nudge(el, 0.4, -420.0, 8848.0)).unwrap(),
                5 => d2 = d.succ_opt().unwrap_or(d),
                6 => d2 = d.pred_opt().unwrap_or(d),
                7 => w2 = Some(weather(1013.0, if w.is_some() { -5.0 } else { 31.0 })),
                8 => p2.asr_shadow_ratio = if p.asr_shadow_ratio == AsrShadowRatio::Shafi { AsrShadowRatio::Hanafi } else { AsrShadowRatio::Shafi },
                9 => {
                    p2.angles.insert(Prayer::Fajr, p.angles[&Prayer::Fajr] + 0.25);
                    p2.angles.insert(Prayer::Isha, p.angles[&Prayer::Isha] + 0.25);
                }
                10 => {
                    p2.minutes.insert(Prayer::Fajr, p.minutes[&Prayer::Fajr] + 7.0);
                    p2.intervals.insert(Prayer::Imsaak, p.intervals[&Prayer::Imsaak] + 3.0);
                }
                11 => p2.round_seconds = if p.round_seconds == RoundSeconds::None { RoundSeconds::NormalRounding } else { RoundSeconds::None },
                // two fields at once: the neighbouring day seen from a slightly different zone / place
                13 => {
                    d2 = d.pred_opt().unwrap_or(d);
                    l2.gmt = Gmt::try_from(nudge(g, 0.005, -12.0, 12.0)).unwrap();
                }
                14 => {
                    d2 = d.succ_opt().unwrap_or(d);
                    l2.gmt = Gmt::try_from(nudge(g, -0.005, -12.0, 12.0)).unwrap();
                }
                15 => {
                    d2 = d.pred_opt().unwrap_or(d);
                    l2.coords.longitude = Longitude::try_from(nudge(lo, 0.05, -180.0, 180.0)).unwrap();
                    l2.coords.latitude = Latitude::try_from(nudge(la, 0.05, -90.0, 90.0)).unwrap();
                }
                16 => {
                    d2 = d.succ_opt().unwrap_or(d);
                    l2.gmt = Gmt::try_from(nudge(g, 0.25, -12.0, 12.0)).unwrap();
                    l2.coords.longitude = Longitude::try_from(nudge(lo, 3.75, -180.0, 180.0)).unwrap();
                }
                _ => {
                    use ExtremeLatitudeMethod as E;
                    p2.extreme_latitude_method = match p.extreme_latitude_method {
                        E::None => E::NearestGoodDayAllPrayersAlways,
                        E::AngleBased => E::SeventhOfNightFajrIshaInvalid,
                        E::NearestLatitudeAllPrayersAlways(x) => E::NearestLatitudeFajrIshaAlways(x),
                        E::NearestLatitudeFajrIshaAlways(x) => E::NearestLatitudeAllPrayersAlways(x),
                        E::NearestLatitudeFajrIshaInvalid(x) => E::NearestLatitudeFajrIshaAlways(x),
                        E::NearestGoodDayAllPrayersAlways => E::NearestGoodDayFajrIshaInvalid,
                        E::NearestGoodDayFajrIshaInvalid => E::NearestGoodDayAllPrayersAlways,
                        E::SeventhOfNightFajrIshaAlways => E::SeventhOfDayFajrIshaAlways,
                        E::SeventhOfNightFajrIshaInvalid => E::SeventhOfNightFajrIshaAlways,
                        E::SeventhOfDayFajrIshaAlways => E::SeventhOfNightFajrIshaAlways,
                        E::SeventhOfDayFajrIshaInvalid => E::SeventhOfDayFajrIshaAlways,
                        E::HalfOfNightFajrIshaAlways => E::HalfOfNightFajrIshaInvalid,
                        E::HalfOfNightFajrIshaInvalid => E::HalfOfNightFajrIshaAlways,
                        E::MinutesFromMaghribFajrIshaAlways => E::MinutesFromMaghribFajrIshaInvalid,
                        E::MinutesFromMaghribFajrIshaInvalid => E::MinutesFromMaghribFajrIshaAlways,
                    };
                }
            }
            st.count("history_probe.near_duplicate_then_original");
            let mut shadow_panic: Option<String> = None;
            if catch_unwind(AssertUnwindSafe(|| prayer_times_dt(&p2, l2, d2, w2))).is_err() {
                shadow_panic = Some(LAST_PANIC.with(|p| p.borrow().clone()));
            }
            match catch_unwind(AssertUnwindSafe(|| prayer_times_dt(p, l, d, w))) {
                Ok(again) => {
                    if &again != res {
                        st.violate("result_depends_on_call_history", &describe(p, l, d, w), serde_json::json!({"probe": "original input re-executed right after a near-duplicate call", "nudged_field_kind": kind, "first": res_json(res), "after_neighbour": res_json(&again)}));
                    }
                }
                Err(_) => shadow_panic = Some(LAST_PANIC.with(|p| p.borrow().clone())),
            }
            // (d) the other order, on a fresh thread: near-duplicate FIRST, then the original input
            st.count("history_probe.fresh_thread_near_duplicate_first");
            let fresh2 = std::thread::scope(|s| {
                s.spawn(|| {
                    let a = catch_unwind(AssertUnwindSafe(|| prayer_times_dt(&p2, l2, d2, w2))).is_ok();
                    let b = catch_unwind(AssertUnwindSafe(|| prayer_times_dt(p, l, d, w)));
                    (a, b, LAST_PANIC.with(|p| p.borrow().clone()))
                })
                .join()
            });
            if let Ok((a_ok, b, pm)) = fresh2 {
                match b {
                    Ok(f) => {
                        if &f != res {
                            st.violate("result_depends_on_call_history", &describe(p, l, d, w), serde_json::json!({"probe": "fresh thread: near-duplicate call first, then the original input", "nudged_field_kind": kind, "in_sequence": res_json(res), "after_neighbour_on_fresh_thread": res_json(&f)}));
                        }
                        if !a_ok && d2 != d {
                            // the neighbour itself panicked although it is a valid input
                            shadow_panic = Some(pm);
                        }
                    }
                    Err(_) => shadow_panic = Some(pm),
                }
            }
            // (e) history of the Params OBJECT: an object that has already been used for a call and is then changed in
            // place through its public fields must behave like a freshly built object with the same field values
            // (derived state cached inside the object must not survive the change). `q` is used as the original
            // parameter set first, then turned into the neighbour's parameter set field by field; the fresh twin is
            // rebuilt from q's serialised form.
            if kind >= 8 {
                st.count("history_probe.params_object_reused_after_in_place_change");
                let mut q = p.clone();
                let first = catch_unwind(AssertUnwindSafe(|| prayer_times_dt(&q, l, d, w)));
                q.asr_shadow_ratio = p2.asr_shadow_ratio;
                q.round_seconds = p2.round_seconds;
                q.extreme_latitude_method = p2.extreme_latitude_method;
                for (k, v) in p2.angles.iter() {
                    if let Some(x) = q.angles.get_mut(k) {
                        *x = *v;
                    }
                }
                for (k, v) in p2.intervals.iter() {
                    if let Some(x) = q.intervals.get_mut(k) {
                        *x = *v;
                    }
                }
                for (k, v) in p2.minutes.iter() {
                    if let Some(x) = q.minutes.get_mut(k) {
                        *x = *v;
                    }
                }
                let reused = catch_unwind(AssertUnwindSafe(|| prayer_times_dt(&q, l, d, w)));
                let twin: Option<Params> = serde_json::to_string(&q).ok().and_then(|t| serde_json::from_str(&t).ok());
                if let (Ok(_), Ok(reused), Some(twin)) = (first, reused, twin) {
                    if let Ok(fresh) = catch_unwind(AssertUnwindSafe(|| prayer_times_dt(&twin, l, d, w))) {
                        if fresh != reused {
                            let mut desc = describe(&q, l, d, w);
                            if let Some(o) = desc.as_object_mut() {
                                o.insert("history_probe".into(), serde_json::json!("params_object"));
                            }
                            st.violate("result_depends_on_call_history", &desc, serde_json::json!({"probe": "a Params object used for one call, then changed in place (public fields) and used again, against a freshly built object with the same field values", "changed_field_kind": kind, "reused_object": res_json(&reused), "fresh_object": res_json(&fresh)}));
                        }
                    }
                }
                // ... and the same object once more with the fallback policy switched off in place
                if q.extreme_latitude_method != ExtremeLatitudeMethod::None {
                    q.extreme_latitude_method = ExtremeLatitudeMethod::None;
                    let reused = catch_unwind(AssertUnwindSafe(|| prayer_times_dt(&q, l, d, w)));
                    let twin: Option<Params> = serde_json::to_string(&q).ok().and_then(|t| serde_json::from_str(&t).ok());
                    if let (Ok(reused), Some(twin)) = (reused, twin) {
                        if let Ok(fresh) = catch_unwind(AssertUnwindSafe(|| prayer_times_dt(&twin, l, d, w))) {
                            if fresh != reused {
                                let mut desc = describe(&q, l, d, w);
                                if let Some(o) = desc.as_object_mut() {
                                    o.insert("history_probe".into(), serde_json::json!("params_object"));
                                }
                                st.violate("result_depends_on_call_history", &desc, serde_json::json!({"probe": "a Params object used under a fallback policy, then its policy field set to None in place and used again, against a freshly built object with the same field values", "reused_object": res_json(&reused), "fresh_object": res_json(&fresh)}));
                            }
                        }
                    }
                }
            }
            if let Some(pm) = shadow_panic {
                if st.prop == "C07" {
                    st.violate("panic", &describe(p, l, d, w), serde_json::json!({"panic": pm, "probe": "panic in a call made right after / before a near-duplicate call (history-dependent)", "nudged_field_kind": kind}));
                } else {
                    st.count("panicked_cannot_decide(see C07)");
                }
            }
        }
    }
    r
}

/// Fault injection: calls OUTSIDE every property's quantifier (calendar edges, negative / far-future years, a
/// Params value with a missing key, malformed text), each under catch_unwind and with the outcome ignored. The
/// library keeps no state, so on correct code they change nothing; a change that adds process-wide state (a cache
/// behind a Mutex, a OnceLock initialised by the first caller) can be left poisoned or mis-initialised by them, and
/// the in-domain executions that FOLLOW are then judged by the ordinary oracles.
pub fn out_of_domain_calls(kind: u64) {
    use chrono::NaiveDate;
    let quiet = |f: &mut dyn FnMut()| {
        let _ = catch_unwind(AssertUnwindSafe(|| f()));
    };
    if kind == 1 || kind == 4 {
        for d in [NaiveDate::MIN, ymd(-100, 3, 1), ymd(0, 12, 31), NaiveDate::MAX, ymd(20000, 1, 1), ymd(262000, 6, 1)] {
            quiet(&mut || {
                let h = HijriDate::from(d);
                let _ = h.to_string();
            });
        }
    }
    if kind == 2 || kind == 4 {
        for t in ["48,5", "1,5", "-0,25", "１２", " 45", "", "1e999", "12.5.1", "\u{e9}\u{e9}\u{e9}\u{e9}\u{e9}\u{e9}\u{e9}\u{e9}\u{e9}\u{e9}\u{e9}\u{e9}\u{e9}\u{e9}\u{e9}\u{e9}\u{e9}\u{e9}"] {
            quiet(&mut || {
                let _ = t.parse::<Latitude>();
                let _ = t.parse::<Longitude>();
                let _ = t.parse::<Elevation>();
                let _ = t.parse::<Gmt>();
                let _ = serde_json::from_str::<Latitude>(t);
                let _ = serde_json::from_str::<Pressure>(t);
                let _ = serde_json::from_str::<Location>(t);
            });
        }
    }
    if kind == 3 || kind == 4 {
        let sites = [loc(60.0, 10.0, 0.0, 1.0), loc(-60.0, -70.0, 0.0, -4.0), loc(89.9, 0.0, 0.0, 0.0), loc(21.4, 39.8, 0.0, 3.0)];
        for d in [NaiveDate::MAX, NaiveDate::MIN, ymd(262000, 6, 21), ymd(-262000, 12, 21), ymd(-1, 6, 21)] {
            for l in sites {
                for m in [Method::Mwl, Method::UmmAlQurra] {
                    quiet(&mut || {
                        let _ = prayer_times_dt(&Params::new(m), l, d, None);
                    });
                    quiet(&mut || {
                        let mut p = Params::new(m);
                        p.extreme_latitude_method = ExtremeLatitudeMethod::NearestGoodDayAllPrayersAlways;
                        let _ = prayer_times_dt(&p, l, d, None);
                    });
                }
            }
        }
        // a Params value with a missing key (e.g. from an incomplete JSON document)
        for key in [Prayer::Fajr, Prayer::Isha, Prayer::Imsaak] {
            // single-date API on THIS thread, on a day whose twilight is missing (the panic happens after the
            // extreme-latitude stage has run), under the default and an always-policy
            for pol in [ExtremeLatitudeMethod::NearestGoodDayFajrIshaInvalid, ExtremeLatitudeMethod::SeventhOfNightFajrIshaInvalid, ExtremeLatitudeMethod::NearestLatitudeFajrIshaAlways(lat(48.5))] {
                quiet(&mut || {
                    let mut p = Params::new(Method::Mwl);
                    p.extreme_latitude_method = pol;
                    p.intervals.remove(&key);
                    let _ = prayer_times_dt(&p, loc(60.0, 10.0, 0.0, 1.0), ymd(2023, 6, 21), None);
                });
            }
            quiet(&mut || {
                let mut p = Params::new(Method::Mwl);
                p.angles.remove(&key);
                p.minutes.remove(&key);
                let dr = DateRange::from(ymd(2023, 6, 1)..=ymd(2023, 6, 5));
                let _ = prayer_times_dt_rng(&p, loc(60.0, 10.0, 0.0, 1.0), &dr);
            });
            quiet(&mut || {
                let mut p = Params::new(Method::Mwl);
                p.intervals.remove(&key);
                let dr = DateRange::from(ymd(2023, 6, 1)..=ymd(2023, 6, 5));
                let _ = prayer_times_dt_rng_block(&p, loc(60.0, 10.0, 0.0, 1.0), &dr, 0);
            });
        }
        quiet(&mut || {
            let dr = DateRange::from(NaiveDate::MAX.pred_opt().unwrap()..=NaiveDate::MAX);
            let _ = prayer_times_dt_rng(&Params::new(Method::Mwl), loc(60.0, 10.0, 0.0, 1.0), &dr);
        });
        // non-finite numeric fields (Params' fields are public f64 maps)
        for (which, v) in [(0, f64::NAN), (1, f64::NAN), (2, f64::INFINITY), (0, f64::NEG_INFINITY)] {
            for pol in [ExtremeLatitudeMethod::NearestLatitudeAllPrayersAlways(lat(48.5)), ExtremeLatitudeMethod::NearestLatitudeFajrIshaInvalid(lat(-48.5)), ExtremeLatitudeMethod::NearestGoodDayFajrIshaInvalid, ExtremeLatitudeMethod::AngleBased] {
                quiet(&mut || {
                    let mut p = Params::new(Method::Mwl);
                    p.extreme_latitude_method = pol;
                    match which {
                        0 => {
                            p.angles.insert(Prayer::Fajr, v);
                        }
                        1 => {
                            p.angles.insert(Prayer::Isha, v);
                            p.intervals.insert(Prayer::Imsaak, v);
                        }
                        _ => {
                            p.minutes.insert(Prayer::Dhuhr, v);
                            p.intervals.insert(Prayer::Isha, v);
                        }
                    }
                    let _ = prayer_times_dt(&p, loc(56.0, 10.0, 0.0, 1.0), ymd(2023, 6, 21), None);
                });
            }
        }
        // which failing call comes LAST on this thread rotates (state left behind by an unwinding call is
        // consumed by the next call, so the order matters)
        static ROT: std::sync::atomic::AtomicU64 = std::sync::atomic::AtomicU64::new(0);
        let k = ROT.fetch_add(1, std::sync::atomic::Ordering::Relaxed);
        let pols = [
            ExtremeLatitudeMethod::NearestGoodDayFajrIshaInvalid,
            ExtremeLatitudeMethod::SeventhOfNightFajrIshaInvalid,
            ExtremeLatitudeMethod::NearestLatitudeFajrIshaInvalid(lat(48.5)),
            ExtremeLatitudeMethod::AngleBased,
            ExtremeLatitudeMethod::None,
        ];
        match k % 4 {
            0 | 1 => quiet(&mut || {
                // panics inside the extreme-latitude stage (interval re-application) on a day without twilight
                let mut p = Params::new(Method::Mwl);
                p.extreme_latitude_method = pols[(k / 4 % 5) as usize];
                p.intervals.remove(if k % 2 == 0 { &Prayer::Fajr } else { &Prayer::Isha });
                let _ = prayer_times_dt(&p, loc(if k % 8 < 4 { 60.0 } else { -60.0 }, 10.0, 0.0, 1.0), if k % 8 < 4 { ymd(2023, 6, 21) } else { ymd(2023, 12, 21) }, None);
            }),
            2 => quiet(&mut || {
                let mut p = Params::new(Method::Mwl);
                p.angles.remove(&Prayer::Isha);
                let _ = prayer_times_dt(&p, loc(60.0, 10.0, 0.0, 1.0), ymd(2023, 6, 21), None);
            }),
            _ => quiet(&mut || {
                let _ = prayer_times_dt(&Params::new(Method::Mwl), loc(60.0, 10.0, 0.0, 1.0), NaiveDate::MAX, None);
            }),
        }
    }
}

/// bisection down to adjacent f64 values: `pred(a)` must be true and `pred(b)` false on entry;
/// returns (last value where pred holds, first value where it does not)
pub fn bisect(mut a: f64, mut b: f64, mut pred: impl FnMut(f64) -> bool) -> (f64, f64) {
    for _ in 0..200 {
        let m = a + (b - a) / 2.0;
        if m == a || m == b {
            break;
        }
        if pred(m) {
            a = m;
        } else {
            b = m;
        }
    }
    (a, b)
}

/// Clock-boundary seeking, shared: move the site eastwards (every solar time falls 240 s per degree) and bisect the
/// longitude down to ADJACENT f64 values across the point where the reported clock value of `pr` drops below the
/// whole-`unit`-seconds boundary at or below its current value. Returns (last longitude at/above the boundary, first
/// longitude below it). The raw hour value is then within about one unit in the last place of the conversion's
/// boundary: paired executions that must agree exactly are judged there and at a few neighbouring floats.
pub fn seek_clock_boundary(st: &mut Stats, p: &Params, site: Site, date: NaiveDate, w: Option<Weather>, pr: Prayer, unit: f64) -> Option<(f64, f64)> {
    let at = |st: &mut Stats, lon: f64| -> Option<f64> {
        let mut s2 = site;
        s2.lon = X(lon);
        call(st, p, s2.loc(), date, w).ok().and_then(|r| r[&pr].ok()).map(|t| secs(&t))
    };
    let d0 = at(st, site.lon.0)?;
    let t = (d0 / unit).floor() * unit;
    let lon1 = site.lon.0 + (d0 - t) / 240.0 + unit.min(60.0) / 240.0 + 0.02;
    if lon1 > 180.0 || t <= 0.0 {
        return None;
    }
    match at(st, lon1) {
        Some(d1) if d1 < t => {}
        _ => return None,
    }
    let (a, b) = bisect(site.lon.0, lon1, |lon| at(st, lon).map(|d| d >= t).unwrap_or(true));
    Some((a, b))
}
/// the k-th f64 after (k > 0) or before (k < 0) x
pub fn nudge_ulps(x: f64, k: i64) -> f64 {
    if x == 0.0 || !x.is_finite() {
        return x;
    }
    let bits = x.to_bits() as i64;
    // for negative x a larger bit pattern is a more negative number
    let nb = if x > 0.0 { bits + k } else { bits - k };
    f64::from_bits(nb as u64)
}

pub fn guarded<T>(f: impl FnOnce() -> T) -> Result<T, String> {
    match catch_unwind(AssertUnwindSafe(f)) {
        Ok(r) => Ok(r),
        Err(_) => Err(LAST_PANIC.with(|p| p.borrow().clone())),
    }
}

pub fn run(ctx: &Ctx, st: &mut Stats) -> bool {
    // prelude: in 4 of every 5 shards the very first library calls of the process / thread are out-of-domain ones
    // (first-call-wins initialisation, poisoning); the fifth shard starts with in-domain calls only
    let prelude = ctx.shard % 5;
    if prelude != 0 && ctx.build != "miri" {
        out_of_domain_calls(prelude);
        st.count(&format!("fault_injection.prelude_kind{prelude}"));
    }
    match ctx.prop.as_str() {
        "C01" => c01::run(ctx, st),
        "C02" => c02::run(ctx, st, "C02"),
        "C03" => c02::run(ctx, st, "C03"),
        "C04" => c02::run(ctx, st, "C04"),
        "C05" => c05::run(ctx, st),
        "C06" => c06::run(ctx, st),
        "C07" => c07::run(ctx, st),
        "C08" => c08::run(ctx, st),
        "C09" => c09::run(ctx, st),
        "C10" => c10::run(ctx, st),
        "C11" => c11::run(ctx, st),
        "C12" => c12::run(ctx, st),
        "C13" => c13::run(ctx, st),
        "C14" => c14::run(ctx, st),
        "C15" => c15::run(ctx, st),
        "C16" => c16::run(ctx, st),
        "C17" => c17::run(ctx, st),
        "C18" => c18::run(ctx, st),
        "C20" => c20::run(ctx, st),
        _ => return false,
    }
    true
}

pub fn replay(ctx: &Ctx, id: &str, case: &Value, st: &mut Stats) -> bool {
    if case.get("history_probe").is_some() || case.get("concurrent_callers").is_some() || case.get("miri_seed").is_some() || case.get("coldstart_seed").is_some() || case.get("hammer_seed").is_some() || case.get("method_defaults").is_some() {
        eprintln!("this record comes from a history / concurrency probe: a single-input replay cannot reproduce it; re-run `./check {id}` (same VERIF_SEED) instead");
        return false;
    }
    macro_rules! rp {
        ($m:ident) => {{
            match serde_json::from_value(case.clone()) {
                Ok(c) => {
                    $m::check(ctx, st, &c);
                    true
                }
                Err(e) => {
                    eprintln!("cannot parse case: {e}");
                    false
                }
            }
        }};
    }
    match id {
        "C01" => rp!(c01),
        "C02" | "C03" | "C04" => match serde_json::from_value(case.clone()) {
            Ok(c) => {
                c02::check(ctx, st, &c, id);
                true
            }
            Err(e) => {
                eprintln!("cannot parse case: {e}");
                false
            }
        },
        "C05" => rp!(c05),
        "C06" => rp!(c06),
        "C07" => rp!(c07),
        "C08" => rp!(c08),
        "C09" => rp!(c09),
        "C10" => rp!(c10),
        "C11" => rp!(c11),
        "C12" => rp!(c12),
        "C13" => rp!(c13),
        "C14" => rp!(c14),
        "C15" => rp!(c15),
        "C16" => rp!(c16),
        "C17" => rp!(c17),
        "C18" => rp!(c18),
        "C20" => rp!(c20),
        _ => false,
    }
}

/// single guarded execution in its own process (exit code 0 ok / 10.. encoded outcome)
pub fn one(id: &str, case: &Value) -> i32 {
    match id {
        "C14" => c14::one(case),
        _ => 2,
    }
}
