//! Reference models, written independently of the library (DESIGN.md §4).
use chrono::{Datelike, NaiveDate};
use islamic_prayer_times::{Prayer, RoundSeconds};

// ---------------------------------------------------------------- E: ephemeris
/// Julian date of 00:00 UT of a civil date, from chrono's day count.
pub fn jd0(date: NaiveDate) -> f64 {
    date.num_days_from_ce() as f64 + 1721424.5
}
pub fn norm360(x: f64) -> f64 {
    let r = x % 360.0;
    if r < 0.0 {
        r + 360.0
    } else {
        r
    }
}
pub fn norm180(x: f64) -> f64 {
    let r = norm360(x);
    if r > 180.0 {
        r - 360.0
    } else {
        r
    }
}
pub struct Eph {
    pub ra: f64,
    pub dec: f64,
    pub gast: f64,
}
/// Meeus ch. 25 low-accuracy Sun + IAU-1982 GMST with the Omega nutation term.
pub fn eph(jd: f64) -> Eph {
    let t = (jd - 2451545.0) / 36525.0;
    let l0 = 280.46646 + 36000.76983 * t + 0.0003032 * t * t;
    let m = (357.52911 + 35999.05029 * t - 0.0001537 * t * t).to_radians();
    let c = (1.914602 - 0.004817 * t - 0.000014 * t * t) * m.sin()
        + (0.019993 - 0.000101 * t) * (2.0 * m).sin()
        + 0.000289 * (3.0 * m).sin();
    let tl = l0 + c;
    let om = (125.04 - 1934.136 * t).to_radians();
    let lam = (tl - 0.00569 - 0.00478 * om.sin()).to_radians();
    let e0 = 23.0 + 26.0 / 60.0 + 21.448 / 3600.0 - 46.8150 / 3600.0 * t
        - 0.00059 / 3600.0 * t * t
        + 0.001813 / 3600.0 * t * t * t;
    let e = (e0 + 0.00256 * om.cos()).to_radians();
    let ra = norm360((e.cos() * lam.sin()).atan2(lam.cos()).to_degrees());
    let dec = (e.sin() * lam.sin()).asin().to_degrees();
    let gmst = 280.46061837 + 360.98564736629 * (jd - 2451545.0) + 0.000387933 * t * t
        - t * t * t / 38710000.0;
    let gast = norm360(gmst + (-0.00478 * om.sin()) * e.cos());
    Eph { ra, dec, gast }
}
/// altitude (deg) from latitude, declination, hour angle (all deg)
pub fn alt(lat: f64, dec: f64, h: f64) -> f64 {
    let (p, d, h) = (lat.to_radians(), dec.to_radians(), h.to_radians());
    (p.sin() * d.sin() + p.cos() * d.cos() * h.cos())
        .clamp(-1.0, 1.0)
        .asin()
        .to_degrees()
}
/// local hour angle (deg, (-180,180]) of the Sun at UT instant jd, east longitude lon
pub fn hour_angle(jd: f64, lon: f64) -> f64 {
    let e = eph(jd);
    norm180(e.gast + lon - e.ra)
}
pub fn true_alt(jd: f64, lat: f64, lon: f64) -> f64 {
    let e = eph(jd);
    alt(lat, e.dec, norm180(e.gast + lon - e.ra))
}
/// JD of local midnight starting the civil date
pub fn jd_local_midnight(date: NaiveDate, gmt: f64) -> f64 {
    jd0(date) - gmt / 24.0
}
/// UT instant (JD) of a reported clock value (seconds after local midnight), centre of the truncated second
pub fn instant(date: NaiveDate, gmt: f64, clock_s: f64) -> f64 {
    jd_local_midnight(date, gmt) + (clock_s + 0.5) / 86400.0
}
/// "that date's declination": E's declination at the local midnight that starts the civil date
pub fn date_dec(date: NaiveDate, gmt: f64) -> f64 {
    eph(jd_local_midnight(date, gmt)).dec
}
/// true on days where the library's 3-point RA interpolation straddles 360 -> 0 (either side)
pub fn ra_wrap_day(date: NaiveDate, gmt: f64) -> bool {
    let jm = jd_local_midnight(date, gmt);
    let (p, c, n) = (eph(jm - 1.0).ra, eph(jm).ra, eph(jm + 1.0).ra);
    (p > 350.0 && c < 10.0) || (c > 350.0 && n < 10.0)
}

/// GMT offset g in [g_lo, g_hi] at which E's solar right ascension at the local midnight of `date` crosses 360 -> 0
/// (None if it does not cross inside the interval). Used to aim workloads at the library's RA-wrap handling.
pub fn ra_wrap_gmt(date: NaiveDate, g_lo: f64, g_hi: f64) -> Option<f64> {
    let f = |g: f64| norm180(eph(jd_local_midnight(date, g)).ra);
    let (mut a, mut b) = (g_lo, g_hi);
    let (fa, fb) = (f(a), f(b));
    // RA grows with time, i.e. falls with g; a crossing needs opposite signs and small magnitudes (not the 180 jump)
    if !(fa > 0.0 && fb < 0.0 && fa < 5.0 && fb > -5.0) {
        return None;
    }
    for _ in 0..60 {
        let m = 0.5 * (a + b);
        if f(m) > 0.0 {
            a = m;
        } else {
            b = m;
        }
    }
    Some(0.5 * (a + b))
}

// ---------------------------------------------------------------- T: tabular Islamic calendar
/// floor division
fn fdiv(a: i64, b: i64) -> i64 {
    a.div_euclid(b)
}
pub const ISLAMIC_EPOCH_RD: i64 = 227015;
/// R.D. (fixed day number, 0001-01-01 proleptic Gregorian = 1) of 1 Muharram of (astronomical) Hijri year y
fn fixed_from_islamic(y: i64, m: i64, d: i64) -> i64 {
    ISLAMIC_EPOCH_RD - 1 + (y - 1) * 354 + fdiv(3 + 11 * y, 30) + 29 * (m - 1) + fdiv(m, 2) + d
}
/// (astronomical year (… -1, 0, 1 …), month 1..12, day 1..30) — Reingold & Dershowitz closed form
pub fn islamic_from_fixed(f: i64) -> (i64, u32, u32) {
    let y = fdiv(30 * (f - ISLAMIC_EPOCH_RD) + 10646, 10631);
    let prior = f - fixed_from_islamic(y, 1, 1);
    let m = fdiv(11 * prior + 330, 325);
    let d = f - fixed_from_islamic(y, m, 1) + 1;
    (y, m as u32, d as u32)
}
/// (year number as displayed, before-Hijra flag, month, day) for a civil date
pub fn tabular(date: NaiveDate) -> (u32, bool, u32, u32) {
    let f = date.num_days_from_ce() as i64;
    let (y, m, d) = islamic_from_fixed(f);
    if y <= 0 {
        ((1 - y) as u32, true, m, d)
    } else {
        (y as u32, false, m, d)
    }
}
pub fn tabular_leap(y: i64) -> bool {
    (11 * y + 14).rem_euclid(30) < 11
}

// ---------------------------------------------------------------- Q: qibla by vectors
pub const KAABA_LAT: f64 = 21.423333;
pub const KAABA_LON: f64 = 39.823333;
fn unit(lat: f64, lon: f64) -> [f64; 3] {
    let (p, l) = (lat.to_radians(), lon.to_radians());
    [p.cos() * l.cos(), p.cos() * l.sin(), p.sin()]
}
fn dot(a: [f64; 3], b: [f64; 3]) -> f64 {
    a[0] * b[0] + a[1] * b[1] + a[2] * b[2]
}
/// bearing to the Kaaba, degrees, positive = counter-clockwise (west) of north, in (-180, 180]
pub fn qibla_bearing(lat: f64, lon: f64) -> f64 {
    let (p, l) = (lat.to_radians(), lon.to_radians());
    let k = unit(KAABA_LAT, KAABA_LON);
    let north = [-p.sin() * l.cos(), -p.sin() * l.sin(), p.cos()];
    let east = [-l.sin(), l.cos(), 0.0];
    let az_east = dot(k, east).atan2(dot(k, north)).to_degrees(); // clockwise from north
    let mut q = -az_east;
    if q <= -180.0 {
        q += 360.0;
    }
    q
}
/// angular distance (deg) between two points
pub fn ang_dist(lat1: f64, lon1: f64, lat2: f64, lon2: f64) -> f64 {
    dot(unit(lat1, lon1), unit(lat2, lon2)).clamp(-1.0, 1.0).acos().to_degrees()
}

// ---------------------------------------------------------------- R: rounding model
/// (h, m, s) of the unrounded time -> (h, m, s) under `mode` for `prayer`
pub fn model_round(mode: RoundSeconds, pr: Prayer, h: u32, m: u32, s: u32) -> (u32, u32, u32) {
    let up = |thr: u32| -> (u32, u32, u32) {
        if s >= thr {
            let t = (h * 60 + m + 1) % 1440;
            (t / 60, t % 60, 0)
        } else {
            (h, m, 0)
        }
    };
    match mode {
        RoundSeconds::None => (h, m, s),
        RoundSeconds::NormalRounding => up(30),
        RoundSeconds::SpecialRounding => {
            if pr == Prayer::Shurooq {
                (h, m, 0)
            } else {
                up(30)
            }
        }
        RoundSeconds::AggressiveRounding => {
            if pr == Prayer::Shurooq {
                (h, m, 0)
            } else {
                up(1)
            }
        }
    }
}

pub fn days_in_year(y: i32) -> i64 {
    if NaiveDate::from_ymd_opt(y, 2, 29).is_some() {
        366
    } else {
        365
    }
}
#[allow(dead_code)]
pub fn weekday_num_sunday1(d: NaiveDate) -> u8 {
    d.weekday().num_days_from_sunday() as u8 + 1
}
