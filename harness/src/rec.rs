//! Run context, statistics/evidence accumulation, known-finding matching, watchdog state.
use serde::Serialize;
use serde_json::{json, Map, Value};
use std::collections::{BTreeMap, HashSet};
use std::sync::atomic::{AtomicU64, Ordering};
use std::sync::Mutex;

pub static PROGRESS: AtomicU64 = AtomicU64::new(0);
pub static CURRENT: Mutex<String> = Mutex::new(String::new());

/// process CPU time in seconds (utime+stime of /proc/self/stat, all threads)
pub fn cpu_s() -> f64 {
    let s = std::fs::read_to_string("/proc/self/stat").unwrap_or_default();
    let after = s.rsplit_once(')').map(|x| x.1).unwrap_or("");
    let f: Vec<&str> = after.split_whitespace().collect();
    let ut: f64 = f.get(11).and_then(|x| x.parse().ok()).unwrap_or(0.0);
    let st: f64 = f.get(12).and_then(|x| x.parse().ok()).unwrap_or(0.0);
    (ut + st) / 100.0
}

#[derive(Clone, Debug)]
pub struct Ctx {
    pub prop: String,
    pub thorough: bool,
    pub seed: u64,
    pub shard: u64,
    pub nshards: u64,
    pub announce: bool,
    /// workload multiplier (VERIF_SCALE, default 1.0) — used only by the self-tests to shorten runs
    pub scale: f64,
    /// which build this is ("release" | "checked")
    pub build: String,
}
impl Ctx {
    /// number of cases for this shard given per-tier totals across all shards
    pub fn quota(&self, quick_total: u64, thorough_total: u64) -> u64 {
        let t = if self.thorough { thorough_total } else { quick_total } as f64 * self.scale;
        ((t / self.nshards as f64).ceil() as u64).max(1)
    }
    pub fn pick(&self, quick: u64, thorough: u64) -> u64 {
        if self.thorough {
            thorough
        } else {
            quick
        }
    }
    /// does index i (of a global enumeration) belong to this shard?
    pub fn mine(&self, i: u64) -> bool {
        i % self.nshards == self.shard
    }
}

#[derive(Clone, Debug)]
pub struct Known {
    pub prop: String,
    pub clause: String,
    pub conds: Vec<(String, String, String)>, // (field expr, op, value)
    pub text: String,
}

pub fn parse_known(path: &str) -> Vec<Known> {
    let mut v = vec![];
    let Ok(s) = std::fs::read_to_string(path) else {
        return v;
    };
    for line in s.lines() {
        let line = line.trim();
        if !line.starts_with("known:") {
            continue;
        }
        let body = line["known:".len()..].trim();
        let (sig, text) = match body.split_once(" -- ") {
            Some((a, b)) => (a, b.to_string()),
            None => (body, String::new()),
        };
        let mut k = Known {
            prop: String::new(),
            clause: String::new(),
            conds: vec![],
            text,
        };
        for tok in sig.split_whitespace() {
            let (f, op, val) = if let Some((a, b)) = tok.split_once(">=") {
                (a, ">=", b)
            } else if let Some((a, b)) = tok.split_once("<=") {
                (a, "<=", b)
            } else if let Some((a, b)) = tok.split_once('=') {
                (a, "=", b)
            } else if let Some((a, b)) = tok.split_once('<') {
                (a, "<", b)
            } else if let Some((a, b)) = tok.split_once('>') {
                (a, ">", b)
            } else {
                continue;
            };
            match f {
                "property" => k.prop = val.to_string(),
                "clause" => k.clause = val.to_string(),
                _ => k.conds.push((f.to_string(), op.to_string(), val.to_string())),
            }
        }
        v.push(k);
    }
    v
}

fn lookup<'a>(v: &'a Value, path: &str) -> Option<&'a Value> {
    let mut cur = v;
    for part in path.split('.') {
        cur = cur.get(part)?;
    }
    Some(cur)
}
fn as_num(v: &Value) -> Option<f64> {
    match v {
        Value::Number(n) => n.as_f64(),
        Value::String(s) => {
            let t = s.split('@').next().unwrap();
            t.parse::<f64>().ok()
        }
        Value::Bool(b) => Some(if *b { 1.0 } else { 0.0 }),
        _ => None,
    }
}
fn as_text(v: &Value) -> String {
    match v {
        Value::String(s) => s.split('@').next().unwrap().to_string(),
        other => other.to_string(),
    }
}
impl Known {
    pub fn matches(&self, prop: &str, clause: &str, rec: &Value) -> bool {
        if self.prop != prop || (self.clause != "*" && self.clause != clause) {
            return false;
        }
        for (f, op, val) in &self.conds {
            let (field, absval) = if f.starts_with("abs(") && f.ends_with(')') {
                (&f[4..f.len() - 1], true)
            } else {
                (f.as_str(), false)
            };
            let Some(x) = lookup(rec, field) else {
                return false;
            };
            let ok = if op == "=" && !absval && val.split('|').any(|alt| alt == as_text(x)) {
                true
            } else if op == "=" && as_num(x).is_none() {
                false
            } else {
                let Some(mut n) = as_num(x) else { return false };
                if absval {
                    n = n.abs();
                }
                match op.as_str() {
                    "=" => val
                        .split('|')
                        .any(|alt| alt.parse::<f64>().map(|w| w == n).unwrap_or(false)),
                    "<" => val.parse::<f64>().map(|w| n < w).unwrap_or(false),
                    ">" => val.parse::<f64>().map(|w| n > w).unwrap_or(false),
                    "<=" => val.parse::<f64>().map(|w| n <= w).unwrap_or(false),
                    ">=" => val.parse::<f64>().map(|w| n >= w).unwrap_or(false),
                    _ => false,
                }
            };
            if !ok {
                return false;
            }
        }
        true
    }
}

#[derive(Serialize, Clone)]
pub struct Margin {
    pub worst: f64,
    pub tolerance: f64,
    pub n: u64,
    pub at: Value,
}

pub struct Stats {
    pub prop: String,
    pub evaluations: u64,
    pub decided: u64,
    pub nontrivial: u64,
    seen: HashSet<u64>,
    pub counters: BTreeMap<String, u64>,
    pub margins: BTreeMap<String, Margin>,
    pub samples: Vec<Value>,
    pub max_samples: usize,
    pub violations: Vec<Value>,
    pub violation_count: u64,
    pub viol_by_clause: BTreeMap<String, u64>,
    pub known_hits: BTreeMap<String, (u64, Value)>,
    pub known: Vec<Known>,
    pub notes: Vec<String>,
    pub extra: Map<String, Value>,
}

const MAX_VIOL_PER_CLAUSE: u64 = 12;
const SEEN_CAP: usize = 6_000_000;

impl Stats {
    pub fn new(prop: &str, known: Vec<Known>) -> Self {
        Stats {
            prop: prop.to_string(),
            evaluations: 0,
            decided: 0,
            nontrivial: 0,
            seen: HashSet::new(),
            counters: BTreeMap::new(),
            margins: BTreeMap::new(),
            samples: vec![],
            max_samples: 6,
            violations: vec![],
            violation_count: 0,
            viol_by_clause: BTreeMap::new(),
            known_hits: BTreeMap::new(),
            known,
            notes: vec![],
            extra: Map::new(),
        }
    }
    #[inline]
    pub fn tick(&mut self) {
        PROGRESS.fetch_add(1, Ordering::Relaxed);
    }
    /// guarded monitors: publish the case about to be executed (read by the watchdog on a stall)
    pub fn begin_case<T: Serialize>(&mut self, ctx: &Ctx, case: &T) {
        let s = serde_json::to_string(case).unwrap();
        if ctx.announce {
            eprintln!("ANNOUNCE {}", s);
        }
        *CURRENT.lock().unwrap() = s;
        PROGRESS.fetch_add(1, Ordering::Relaxed);
    }
    #[inline]
    pub fn count(&mut self, key: &str) {
        self.add(key, 1);
    }
    pub fn add(&mut self, key: &str, n: u64) {
        if let Some(c) = self.counters.get_mut(key) {
            *c += n;
        } else {
            self.counters.insert(key.to_string(), n);
        }
    }
    /// count a distinct non-trivial case (dedupe on a 64-bit key; conservative once the set is full)
    pub fn nontrivial_key(&mut self, key: u64) {
        if self.seen.len() < SEEN_CAP {
            if self.seen.insert(key) {
                self.nontrivial += 1;
            }
        }
    }
    /// distinct by construction (enumerations without repetition)
    pub fn nontrivial_by_construction(&mut self, n: u64) {
        self.nontrivial += n;
    }
    pub fn margin(&mut self, name: &str, value: f64, tol: f64, at: impl FnOnce() -> Value) {
        let v = value.abs();
        match self.margins.get_mut(name) {
            Some(m) => {
                m.n += 1;
                if v > m.worst {
                    m.worst = v;
                    m.at = at();
                }
            }
            None => {
                self.margins.insert(
                    name.to_string(),
                    Margin {
                        worst: v,
                        tolerance: tol,
                        n: 1,
                        at: at(),
                    },
                );
            }
        }
    }
    /// tracks the SMALLEST value seen (how close the monitor got to a boundary); stored with tolerance = NaN
    pub fn min_of(&mut self, name: &str, value: f64, at: impl FnOnce() -> Value) {
        match self.margins.get_mut(name) {
            Some(m) => {
                m.n += 1;
                if value < m.worst {
                    m.worst = value;
                    m.at = at();
                }
            }
            None => {
                self.margins.insert(
                    name.to_string(),
                    Margin {
                        worst: value,
                        tolerance: -1.0,
                        n: 1,
                        at: at(),
                    },
                );
            }
        }
    }
    pub fn sample(&mut self, v: impl FnOnce() -> Value) {
        if self.samples.len() < self.max_samples {
            self.samples.push(v());
        }
    }
    pub fn violate<T: Serialize>(&mut self, clause: &str, case: &T, detail: Value) {
        let rec = json!({"property": self.prop, "clause": clause, "case": case, "detail": detail});
        for k in &self.known {
            if k.matches(&self.prop, clause, &rec) {
                let key = format!("property={} clause={} {}", k.prop, k.clause, k.text);
                let e = self.known_hits.entry(key).or_insert((0, rec.clone()));
                e.0 += 1;
                return;
            }
        }
        self.violation_count += 1;
        let c = self.viol_by_clause.entry(clause.to_string()).or_insert(0);
        *c += 1;
        if *c <= MAX_VIOL_PER_CLAUSE {
            self.violations.push(rec);
        }
    }
    pub fn note(&mut self, s: &str) {
        if !self.notes.iter().any(|x| x == s) {
            self.notes.push(s.to_string());
        }
    }
    pub fn to_json(&self, ctx: &Ctx, wall_s: f64) -> Value {
        let known: Vec<Value> = self
            .known_hits
            .iter()
            .map(|(k, (n, rec))| json!({"signature": k, "count": n, "example": rec}))
            .collect();
        json!({
            "property": self.prop, "shard": ctx.shard, "nshards": ctx.nshards, "seed": ctx.seed,
            "tier": if ctx.thorough {"thorough"} else {"quick"}, "build": ctx.build,
            "evaluations": self.evaluations, "decided": self.decided, "nontrivial": self.nontrivial,
            "counters": self.counters, "margins": self.margins, "samples": self.samples,
            "violations": self.violations, "violation_count": self.violation_count,
            "violations_by_clause": self.viol_by_clause, "known_hits": known,
            "notes": self.notes, "extra": self.extra, "wall_s": wall_s,
        })
    }
}
