//! Small shared helpers: PRNG, exact f64 (de)serialisation, library value builders.
use chrono::{Datelike, NaiveDate, Timelike};
pub use islamic_prayer_times::*;
use serde::{Deserialize, Deserializer, Serialize, Serializer};
use std::collections::BTreeMap;

pub type Res = BTreeMap<Prayer, Result<PrayerTime, ()>>;

pub const SIX: [Prayer; 6] = [
    Prayer::Fajr,
    Prayer::Shurooq,
    Prayer::Dhuhr,
    Prayer::Asr,
    Prayer::Maghrib,
    Prayer::Isha,
];
pub const SEVEN: [Prayer; 7] = [
    Prayer::Imsaak,
    Prayer::Fajr,
    Prayer::Shurooq,
    Prayer::Dhuhr,
    Prayer::Asr,
    Prayer::Maghrib,
    Prayer::Isha,
];
pub const METHODS: [Method; 9] = [
    Method::None,
    Method::Egyptian,
    Method::Egypt,
    Method::Shafi,
    Method::Hanafi,
    Method::Isna,
    Method::Mwl,
    Method::UmmAlQurra,
    Method::FixedIsha,
];
/// indices into METHODS of the six angle-defined methods
pub const ANGLE_METHODS: [usize; 6] = [1, 2, 3, 4, 5, 6];
pub const MODES: [RoundSeconds; 4] = [
    RoundSeconds::None,
    RoundSeconds::NormalRounding,
    RoundSeconds::SpecialRounding,
    RoundSeconds::AggressiveRounding,
];

/// splitmix64
#[derive(Clone)]
pub struct Rng(pub u64);
impl Rng {
    pub fn new(seed: u64, stream: u64, sub: u64) -> Self {
        // every component goes through the finaliser first: the generator's state advances by the golden-ratio
        // constant, so a state that is LINEAR in the seed would make seed n+1 the same sequence shifted by one draw
        fn mix(mut z: u64) -> u64 {
            z = (z ^ (z >> 30)).wrapping_mul(0xBF58476D1CE4E5B9);
            z = (z ^ (z >> 27)).wrapping_mul(0x94D049BB133111EB);
            z ^ (z >> 31)
        }
        let mut r = Rng(mix(seed.wrapping_add(0x1234_5678_9ABC_DEF1))
            .wrapping_add(mix(stream.wrapping_mul(0xD1B54A32D192ED03).wrapping_add(7)))
            .wrapping_add(mix(sub.wrapping_mul(0x8CB92BA72F3D8DD7).wrapping_add(13))));
        r.next();
        r.next();
        r
    }
    pub fn next(&mut self) -> u64 {
        self.0 = self.0.wrapping_add(0x9E3779B97F4A7C15);
        let mut z = self.0;
        z = (z ^ (z >> 30)).wrapping_mul(0xBF58476D1CE4E5B9);
        z = (z ^ (z >> 27)).wrapping_mul(0x94D049BB133111EB);
        z ^ (z >> 31)
    }
    pub fn f(&mut self) -> f64 {
        (self.next() >> 11) as f64 / (1u64 << 53) as f64
    }
    pub fn range(&mut self, a: f64, b: f64) -> f64 {
        a + (b - a) * self.f()
    }
    /// inclusive integer range
    pub fn int(&mut self, a: i64, b: i64) -> i64 {
        a + (self.next() % ((b - a + 1) as u64)) as i64
    }
    pub fn chance(&mut self, p: f64) -> bool {
        self.f() < p
    }
    pub fn pick<'a, T>(&mut self, xs: &'a [T]) -> &'a T {
        &xs[(self.next() % xs.len() as u64) as usize]
    }
    pub fn sign(&mut self) -> f64 {
        if self.next() & 1 == 0 {
            1.0
        } else {
            -1.0
        }
    }
}

pub fn hash64(s: &str) -> u64 {
    let mut h: u64 = 0xcbf29ce484222325;
    for b in s.as_bytes() {
        h ^= *b as u64;
        h = h.wrapping_mul(0x100000001b3);
    }
    h
}

/// f64 that survives JSON exactly: written as "decimal@hexbits", read back from the bits.
#[derive(Clone, Copy, Debug, PartialEq)]
pub struct X(pub f64);
impl Serialize for X {
    fn serialize<S: Serializer>(&self, s: S) -> Result<S::Ok, S::Error> {
        s.serialize_str(&format!("{:?}@{:016x}", self.0, self.0.to_bits()))
    }
}
impl<'de> Deserialize<'de> for X {
    fn deserialize<D: Deserializer<'de>>(d: D) -> Result<Self, D::Error> {
        let s = String::deserialize(d)?;
        if let Some((_, bits)) = s.split_once('@') {
            let b = u64::from_str_radix(bits, 16).map_err(serde::de::Error::custom)?;
            Ok(X(f64::from_bits(b)))
        } else {
            s.parse::<f64>().map(X).map_err(serde::de::Error::custom)
        }
    }
}

pub fn d2s(d: NaiveDate) -> String {
    format!("{:04}-{:02}-{:02}", d.year(), d.month(), d.day())
}
pub fn s2d(s: &str) -> NaiveDate {
    let neg = s.starts_with('-');
    let t = s.trim_start_matches('-');
    let mut it = t.split('-');
    let y: i32 = it.next().unwrap().parse().unwrap();
    let m: u32 = it.next().unwrap().parse().unwrap();
    let d: u32 = it.next().unwrap().parse().unwrap();
    NaiveDate::from_ymd_opt(if neg { -y } else { y }, m, d).unwrap()
}
pub fn ymd(y: i32, m: u32, d: u32) -> NaiveDate {
    NaiveDate::from_ymd_opt(y, m, d).unwrap()
}
pub fn ce(d: NaiveDate) -> i32 {
    d.num_days_from_ce()
}
pub fn from_ce(n: i32) -> NaiveDate {
    NaiveDate::from_num_days_from_ce_opt(n).unwrap()
}
pub fn day_lo() -> i32 {
    ce(ymd(1600, 1, 1))
}
pub fn day_hi() -> i32 {
    ce(ymd(2399, 12, 31))
}
pub fn rand_date(r: &mut Rng) -> NaiveDate {
    from_ce(r.int(day_lo() as i64, day_hi() as i64) as i32)
}
/// hostile date generator: year ends, leap days, equinox week, solstices, else uniform
pub fn hostile_date(r: &mut Rng) -> NaiveDate {
    let y = r.int(1600, 2399) as i32;
    match r.int(0, 11) {
        0 => ymd(y, 12, 31),
        1 => ymd(y, 1, 1),
        2 => NaiveDate::from_ymd_opt(y, 2, 29).unwrap_or(ymd(y, 2, 28)),
        3 => ymd(y, 3, 1),
        4 => ymd(y, 3, r.int(17, 24) as u32),
        5 => ymd(y, 6, r.int(18, 24) as u32),
        6 => ymd(y, 12, r.int(18, 24) as u32),
        7 => ymd(y, 9, r.int(19, 26) as u32),
        9 => {
            // the machine's own current date and its neighbours (code that special-cases "today")
            let t = chrono::Local::now().date_naive();
            from_ce(ce(t) + r.int(-1, 1) as i32)
        }
        8 => {
            // January / February / 1 March of the century years (1700, 1800, 1900, 2100, 2200, 2300 are not leap)
            let cy = *r.pick(&[1600, 1700, 1800, 1900, 2000, 2100, 2200, 2300]);
            match r.int(0, 2) {
                0 => ymd(cy, 1, r.int(1, 31) as u32),
                1 => ymd(cy, 2, r.int(1, 28) as u32),
                _ => ymd(cy, 3, 1),
            }
        }
        _ => rand_date(r),
    }
}

pub fn lat(v: f64) -> Latitude {
    Latitude::try_from(v).unwrap()
}
pub fn loc(la: f64, lo: f64, elev: f64, gmt: f64) -> Location {
    Location {
        coords: Coordinates::new(
            Latitude::try_from(la).unwrap(),
            Longitude::try_from(lo).unwrap(),
            Elevation::try_from(elev).unwrap(),
        ),
        gmt: Gmt::try_from(gmt).unwrap(),
    }
}
pub fn weather(p: f64, t: f64) -> Weather {
    Weather {
        pressure: Pressure::try_from(p).unwrap(),
        temperature: Temperature::try_from(t).unwrap(),
    }
}
pub fn secs(t: &PrayerTime) -> f64 {
    t.time.num_seconds_from_midnight() as f64
}
pub fn isecs(t: &PrayerTime) -> i64 {
    t.time.num_seconds_from_midnight() as i64
}
/// signed difference a-b of two clock values (seconds), reduced into (-12h, 12h]
pub fn off(a: f64, b: f64) -> f64 {
    let mut x = (a - b) % 86400.0;
    if x <= -43200.0 {
        x += 86400.0;
    }
    if x > 43200.0 {
        x -= 86400.0;
    }
    x
}
/// like `off`, for an entry that lies BEFORE the reference (Imsaak/Fajr/Shurooq vs Dhuhr): range [-12h, 12h),
/// so that an entry exactly 12 h before (possible after rounding/truncation) is not read as 12 h after
pub fn off_before(a: f64, b: f64) -> f64 {
    let x = off(a, b);
    if x >= 43200.0 {
        x - 86400.0
    } else {
        x
    }
}
pub fn near_midnight(t: f64, band: f64) -> bool {
    t < band || t > 86400.0 - band
}

/// A site (everything but the date) in replayable form.
#[derive(Clone, Copy, Debug, Serialize, Deserialize, PartialEq)]
pub struct Site {
    pub lat: X,
    pub lon: X,
    pub elev: X,
    pub gmt: X,
}
impl Site {
    pub fn new(lat: f64, lon: f64, elev: f64, gmt: f64) -> Self {
        Site {
            lat: X(lat),
            lon: X(lon),
            elev: X(elev),
            gmt: X(gmt),
        }
    }
    pub fn loc(&self) -> Location {
        loc(self.lat.0, self.lon.0, self.elev.0, self.gmt.0)
    }
}

/// Replayable description of a `Params` value: a method plus explicit overrides.
#[derive(Clone, Debug, Serialize, Deserialize, PartialEq)]
pub struct PSpec {
    pub method: usize,
    pub mode: usize,
    pub hanafi: Option<bool>,
    /// "None" | policy name | "NearestLatitude...:<lat>"
    pub policy: String,
    pub policy_lat: Option<X>,
    pub fajr_angle: Option<X>,
    pub isha_angle: Option<X>,
    pub imsaak_angle: Option<X>,
    pub fajr_int: Option<X>,
    pub isha_int: Option<X>,
    pub imsaak_int: Option<X>,
    /// minute offsets in SEVEN order
    pub minutes: Option<[X; 7]>,
}
pub const POLICIES: [&str; 15] = [
    "None",
    "AngleBased",
    "NearestLatitudeAllPrayersAlways",
    "NearestLatitudeFajrIshaAlways",
    "NearestLatitudeFajrIshaInvalid",
    "NearestGoodDayAllPrayersAlways",
    "NearestGoodDayFajrIshaInvalid",
    "SeventhOfNightFajrIshaAlways",
    "SeventhOfNightFajrIshaInvalid",
    "SeventhOfDayFajrIshaAlways",
    "SeventhOfDayFajrIshaInvalid",
    "HalfOfNightFajrIshaAlways",
    "HalfOfNightFajrIshaInvalid",
    "MinutesFromMaghribFajrIshaAlways",
    "MinutesFromMaghribFajrIshaInvalid",
];
pub fn policy(name: &str, l: Option<f64>) -> ExtremeLatitudeMethod {
    use ExtremeLatitudeMethod as E;
    let la = || lat(l.expect("policy latitude"));
    match name {
        "None" => E::None,
        "AngleBased" => E::AngleBased,
        "NearestLatitudeAllPrayersAlways" => E::NearestLatitudeAllPrayersAlways(la()),
        "NearestLatitudeFajrIshaAlways" => E::NearestLatitudeFajrIshaAlways(la()),
        "NearestLatitudeFajrIshaInvalid" => E::NearestLatitudeFajrIshaInvalid(la()),
        "NearestGoodDayAllPrayersAlways" => E::NearestGoodDayAllPrayersAlways,
        "NearestGoodDayFajrIshaInvalid" => E::NearestGoodDayFajrIshaInvalid,
        "SeventhOfNightFajrIshaAlways" => E::SeventhOfNightFajrIshaAlways,
        "SeventhOfNightFajrIshaInvalid" => E::SeventhOfNightFajrIshaInvalid,
        "SeventhOfDayFajrIshaAlways" => E::SeventhOfDayFajrIshaAlways,
        "SeventhOfDayFajrIshaInvalid" => E::SeventhOfDayFajrIshaInvalid,
        "HalfOfNightFajrIshaAlways" => E::HalfOfNightFajrIshaAlways,
        "HalfOfNightFajrIshaInvalid" => E::HalfOfNightFajrIshaInvalid,
        "MinutesFromMaghribFajrIshaAlways" => E::MinutesFromMaghribFajrIshaAlways,
        "MinutesFromMaghribFajrIshaInvalid" => E::MinutesFromMaghribFajrIshaInvalid,
        _ => panic!("unknown policy {name}"),
    }
}
pub fn is_nearest_lat(name: &str) -> bool {
    name.starts_with("NearestLatitude")
}
impl PSpec {
    pub fn new(method: usize) -> Self {
        PSpec {
            method,
            mode: 0,
            hanafi: None,
            policy: "None".into(),
            policy_lat: None,
            fajr_angle: None,
            isha_angle: None,
            imsaak_angle: None,
            fajr_int: None,
            isha_int: None,
            imsaak_int: None,
            minutes: None,
        }
    }
    pub fn with_policy(mut self, name: &str, l: Option<f64>) -> Self {
        self.policy = name.into();
        self.policy_lat = l.map(X);
        self
    }
    pub fn build(&self) -> Params {
        let mut p = Params::new(METHODS[self.method]);
        p.round_seconds = MODES[self.mode];
        if let Some(h) = self.hanafi {
            p.asr_shadow_ratio = if h {
                AsrShadowRatio::Hanafi
            } else {
                AsrShadowRatio::Shafi
            };
        }
        p.extreme_latitude_method = policy(&self.policy, self.policy_lat.map(|x| x.0));
        if let Some(a) = self.fajr_angle {
            p.angles.insert(Prayer::Fajr, a.0);
        }
        if let Some(a) = self.isha_angle {
            p.angles.insert(Prayer::Isha, a.0);
        }
        if let Some(a) = self.imsaak_angle {
            p.angles.insert(Prayer::Imsaak, a.0);
        }
        if let Some(a) = self.fajr_int {
            p.intervals.insert(Prayer::Fajr, a.0);
        }
        if let Some(a) = self.isha_int {
            p.intervals.insert(Prayer::Isha, a.0);
        }
        if let Some(a) = self.imsaak_int {
            p.intervals.insert(Prayer::Imsaak, a.0);
        }
        if let Some(m) = self.minutes {
            for (i, pr) in SEVEN.iter().enumerate() {
                p.minutes.insert(*pr, m[i].0);
            }
        }
        p
    }
}

/// Compact JSON view of a result map (for samples / violation details).
pub fn res_json(r: &Res) -> serde_json::Value {
    let mut m = serde_json::Map::new();
    for pr in SEVEN {
        let v = match r.get(&pr) {
            None => "MISSING".to_string(),
            Some(Err(())) => "Invalid".to_string(),
            Some(Ok(t)) => format!("{}{}", t.time, if t.extreme { " (extreme)" } else { "" }),
        };
        m.insert(format!("{pr:?}"), serde_json::Value::String(v));
    }
    serde_json::Value::Object(m)
}

pub fn lat_band(l: f64) -> &'static str {
    let a = l.abs();
    if a < 10.0 {
        "00-10"
    } else if a < 23.5 {
        "10-23.5"
    } else if a < 35.0 {
        "23.5-35"
    } else if a < 45.0 {
        "35-45"
    } else if a < 55.0 {
        "45-55"
    } else if a < 66.56 {
        "55-66.56"
    } else if a < 80.0 {
        "66.56-80"
    } else {
        "80-90"
    }
}
