import json,sys
j=json.load(open(sys.argv[1]))
print('evals',j['evaluations'],'decided',j['decided'],'nontrivial',j['nontrivial'],'viol',j['violation_count'],j['violations_by_clause'],'wall',round(j['wall_s'],1))
for k,v in j['margins'].items(): print(' margin',k,'worst',round(v['worst'],5),'tol',v['tolerance'],'n',v['n'])
print(' counters',{k:v for k,v in j['counters'].items() if not k.startswith('hist') and 'lat_band' not in k})
for k in j['known_hits']: print(' KNOWN',k['signature'],k['count'])
n=int(sys.argv[2]) if len(sys.argv)>2 else 2
for v in j['violations'][:n]: print(json.dumps(v)[:900])
