#!/usr/bin/env python3
"""Regenerates MANIFEST.json (kept in one place so that it stays valid and consistent)."""
import json
import subprocess

hooks_commit = "9cc1378"
P = {
    "C01": ("reference-model monitor: independent ephemeris evaluates the Sun's hour angle at every reported Dhuhr; exhaustive date sweep 1600-2399 per site + seeded hostile random",
            "§5 C01", "runtime monitoring: reference-model oracle (independent ephemeris) over exhaustive per-site date sweeps and seeded hostile inputs"),
    "C02": ("reference-model monitor: true solar altitude at reported Shurooq/Maghrib (seam-aware) + paired executions with/without weather",
            "§5 C02", "runtime monitoring: reference-model oracle + metamorphic paired executions (weather)"),
    "C03": ("reference-model monitor: depression angle under the date's declination and true altitude at the Dhuhr-relative instant; paired executions for angle monotonicity",
            "§5 C03", "runtime monitoring: reference-model oracle + metamorphic paired executions (angle monotonicity)"),
    "C04": ("reference-model monitor: Asr altitude vs arccot(k+tan|lat-dec|), ordering vs Dhuhr/Maghrib, paired Shafi/Hanafi executions, zenith-passage generator",
            "§5 C04", "runtime monitoring: reference-model oracle + paired executions (school)"),
    "C05": ("invariant monitor on every returned map: 7 keys, chronological order around Dhuhr, no flags without a policy; all modes, all named methods",
            "§5 C05", "runtime monitoring: structural invariant checked on seeded hostile executions"),
    "C06": ("reference-model monitor: existence of each solar event from the Sun's daily altitude range (independent declination at start/middle/end of day) vs the Ok/Invalid pattern",
            "§5 C06", "runtime monitoring: reference-model oracle for event existence, exemption band counted"),
    "C07": ("crash/hang monitor: every call under catch_unwind with a CPU-budget stall watchdog and address-space limit, in release and overflow-checked builds, over a hostile product of all parameters",
            "§5 C07, §3.4", "runtime monitoring: panic capture + bounded-progress watchdog, release and overflow-checked builds"),
    "C08": ("differential monitor: each policy against the None-policy run of the same input (untouched prayers, identity on valid days, flag <=> replaced)",
            "§5 C08", "runtime monitoring: differential (paired-execution) oracle against the no-policy run"),
    "C09": ("reference-model monitor: outward search over the None-policy results of the neighbouring 400 days, every day of whole site-years in both hemispheres",
            "§5 C09", "runtime monitoring: reference-model oracle (independent nearest-good-day search) over whole site-years"),
    "C10": ("formula monitor: expected Fajr/Isha computed from the None-policy run (and a None-policy run at the substitute latitude) within 3 s, flags checked",
            "§5 C10", "runtime monitoring: formula oracle over paired executions"),
    "C11": ("exhaustive hook-level enumeration of every second of the day x mode x prayer key x offsets against an integer rounding model, plus API-level mode-vs-None pairs",
            "§5 C11", "runtime monitoring: exhaustive enumeration through a hook + integer reference model; API-level paired executions"),
    "C12": ("metamorphic monitor: pairs of executions differing in exactly one parameter; only the documented entries may move, by the documented amount",
            "§5 C12", "runtime monitoring: metamorphic paired executions (one-parameter changes)"),
    "C13": ("history monitor: sliding window over every consecutive date triple 1600-2399 per site; second differences and daily change against the stated bounds",
            "§5 C13", "runtime monitoring: online checker over the day-by-day history (second differences), exhaustive per site"),
    "C14": ("model monitor: num_days / partition against a day-count model (exhaustive small spans x part counts), range API against the single-date API; reversed ranges in a guarded subprocess",
            "§5 C14", "runtime monitoring: reference-model oracle + guarded subprocess for unbounded iteration"),
    "C15": ("offline event-log checker (exactly-once, conservation, tiling, ordering) + map equality vs sequential + logical deadlock detector, under seeded schedule perturbation with worker counts 1..64; Miri on tiny ranges x scheduler seeds; TSan in thorough",
            "§5 C15, §6", "runtime monitoring: event-log checker over hook traces under schedule perturbation; Miri and ThreadSanitizer legs"),
    "C16": ("reference-model monitor: bearing by unit vectors within 1e-6 deg, range, label, text, elevation independence; ladders on the Kaaba meridian/antimeridian",
            "§5 C16", "runtime monitoring: reference-model oracle (vector bearing)"),
    "C17": ("exhaustive enumeration of all 3,652,059 dates against a closed-form integer tabular calendar; structural successor monitor on the library's own output; release and overflow-checked builds",
            "§5 C17", "runtime monitoring: exhaustive enumeration against an integer reference model + stream invariants"),
    "C18": ("range-model monitor over all construction routes (number, text, JSON, composite documents) with hostile values and corpora; bit-identical read-back; panics captured",
            "§5 C18", "runtime monitoring: reference-model oracle over hostile values/texts through every construction route"),
    "C19": ("black-box monitor of the real CLI binary as a subprocess: JSON output decoded vs the library's result, -p/-i byte-identical round trip, terminal listing vs library Display values, rejection of invalid input; valgrind memcheck in thorough",
            "§5 C19", "runtime monitoring: subprocess observation of the real binary against library-computed expectations; valgrind memcheck leg"),
    "C20": ("metamorphic monitor: (gmt, gmt+d) and (lon, gmt) vs (lon+15, gmt+1) pairs, each entry within 10 s, seam pairs classified and bounded separately",
            "§5 C20", "runtime monitoring: metamorphic paired executions (zone / meridian shifts)"),
}
NOTE = {
    "C15": "schedules are sampled (seeded perturbation + OS scheduling + Miri seeds), not enumerated; termination is decided as bounded progress with a logical deadlock criterion",
    "C07": "liveness restated as bounded progress: a single call consuming >20 CPU-seconds (about 200x the slowest legitimate call) is a stall",
}
checks = []
for pid in sorted(P):
    text, ref, tech = P[pid]
    checks.append({
        "property_id": pid,
        "quick_cmd": f"./check {pid} --tier quick",
        "thorough_cmd": f"./check {pid} --tier thorough",
        "evidence_file": f"evidence/{pid}.json",
        "replay_cmd_template": f"./check {pid} --replay {{path}}",
        "engine": "ipt-monitor",
        "level_claimed": {"category": "exploration", "text": text + "; plus the shared history-, fault-, concurrency-, cold-start- and configuration-diversity probes and boundary seeking of DESIGN §3.8. Held only on the executions observed; counts, smallest margins and samples are in the evidence file.", "design_ref": ref},
        "level_note": NOTE.get(pid, "trusted base: the independent oracles in harness/src/oracle.rs, chrono's day counts, std float parsing; inputs are generated (seeded) or enumerated as stated in the evidence rule"),
        "technique": tech,
    })
fixes = subprocess.run(["git", "-C", "/repo", "log", "--format=%h %s", f"{hooks_commit}..HEAD"], capture_output=True, text=True).stdout.strip().splitlines()
m = {
    "version": 1,
    "setup_cmd": "./setup.sh",
    "hooks": {
        "guard": "cargo feature verif-hooks (off by default)",
        "enable": "the harness crate depends on /repo with features = [\"verif-hooks\"]; `./check` builds it with cargo build --offline",
        "baseline_off_cmd": "cd /repo && cargo test --workspace --no-fail-fast --offline",
        "source_commits": [hooks_commit],
        "add_only": True,
    },
    "engines": [
        {"name": "ipt-monitor", "path": "harness/", "serves_properties": sorted(P), "kind_free_text": "Rust harness: seeded/enumerating workload drivers, independent oracles, event-log checker; orchestrated by ./check (python3, stdlib)"},
        {"name": "miri", "path": "cargo +nightly miri run (harness)", "serves_properties": ["C15"], "kind_free_text": "UB / data-race / deadlock interpreter over tiny parallel ranges x scheduler seeds"},
        {"name": "tsan", "path": "cargo +nightly build -Zbuild-std -Zsanitizer=thread (harness)", "serves_properties": ["C15"], "kind_free_text": "ThreadSanitizer build of the harness, thorough tier"},
        {"name": "valgrind", "path": "valgrind memcheck on the CLI", "serves_properties": ["C19"], "kind_free_text": "memcheck on the real binary, thorough tier"},
    ],
    "checks": checks,
    "notes": "Repairs of genuine defects in /repo ('fix:' commits, see KNOWN_FINDINGS.txt fixed: lines): " + "; ".join(fixes) + ". Known (unrepaired) findings are listed as known: lines in KNOWN_FINDINGS.txt and printed as KNOWN-FINDING lines.",
    "not_applicable": [],
}
json.dump(m, open("/verif/MANIFEST.json", "w"), indent=1)
print("MANIFEST.json written:", len(checks), "checks")
