#!/bin/sh
# Run once after a fresh restore (offline): builds the harness (release + overflow-checked profiles) and the CLI.
set -e
cd "$(dirname "$0")"
export CARGO_NET_OFFLINE=true
cargo build --offline --release --manifest-path harness/Cargo.toml --target-dir .build/release
cargo build --offline --profile checked --manifest-path harness/Cargo.toml --target-dir .build/checked
cargo build --offline --profile unopt --manifest-path harness/Cargo.toml --target-dir .build/unopt
cargo build --offline --release --manifest-path /repo/Cargo.toml --target-dir .build/cli
# getenv interposer used by the configuration shards
cc -shared -fPIC -O1 -o .build/envshim.so tools/envshim.c -ldl || true
# Miri build of the harness (sysroot + dependencies); failure here only makes the first C15 run slower
cargo +nightly miri setup >/dev/null 2>&1 || true
echo "setup done"
