#!/bin/sh
# tools/confirm_mutant.sh <scratch worktree> <mutant dir with patch.diff + demo.rs>
# confirms: patch applies; existing tests pass with it; demo fails with it and passes without it. Leaves the worktree clean.
W="$1"; M="$2"
cd "$W" || exit 2
git checkout -q -- . ; git clean -fdq src; rm -f tests/demo.rs
git apply "$M/patch.diff" || { echo "APPLY-FAIL"; exit 2; }
T=$(cargo test --offline --workspace --no-fail-fast 2>&1 | grep -E '^test result' | awk '{p+=$4; f+=$6} END {print p" passed "f" failed"}')
echo "existing tests with patch: $T"
cp "$M/demo.rs" tests/demo.rs
cargo test --offline --test demo 2>&1 | grep -E '^test result|error(\[|:)' | head -3 | sed 's/^/demo WITH patch: /'
git checkout -q -- . ; git clean -fdq src
cargo test --offline --test demo 2>&1 | grep -E '^test result|error(\[|:)' | head -3 | sed 's/^/demo WITHOUT patch: /'
rm -f tests/demo.rs; git status --porcelain | head -3
