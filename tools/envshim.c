/* envshim.so — LD_PRELOAD interposer of getenv() for configuration monitoring.
 *
 * Every environment variable the program under test asks for is checked against a list of variables that belong
 * to the runtime / the harness. A name outside that list is (a) appended to the file named by VERIF_ENVSHIM_LOG
 * and (b) answered with the adversarial value in VERIF_ENVSHIM_VALUE (if set) instead of "unset". On the
 * unchanged library no such name is requested, so the shim changes nothing; a change that makes behaviour depend
 * on an undocumented environment variable is driven into that branch.
 */
#define _GNU_SOURCE
#include <dlfcn.h>
#include <fcntl.h>
#include <stdlib.h>
#include <string.h>
#include <unistd.h>

static char *(*real_getenv)(const char *) = 0;

static int starts(const char *s, const char *p) { return strncmp(s, p, strlen(p)) == 0; }

static int known(const char *n) {
    static const char *prefixes[] = {"RUST", "CARGO", "VERIF_", "LD_", "LC_", "MALLOC_", "GLIBC_", "MIRI", "TSAN_", "ASAN_", "XDG_", "SSL_", "CONDA", "PYENV", "PYTHON", "CLICOLOR", "NO_COLOR", "COLORTERM", "CLAUDE", 0};
    static const char *names[] = {"TZ", "TZDIR", "LANG", "LANGUAGE", "PATH", "HOME", "TMPDIR", "TERM", "USER", "LOGNAME", "SHELL", "PWD", "OLDPWD", "HOSTNAME", "COLUMNS", "LINES", "POSIXLY_CORRECT", "NLSPATH", "GCONV_PATH", "LOCPATH", "RES_OPTIONS", "LOCALDOMAIN", "HOSTALIASES", "TMP", "TEMP", "_", "SHLVL", "MAIL", "EDITOR", "PAGER", "DISPLAY", 0};
    for (int i = 0; prefixes[i]; i++) if (starts(n, prefixes[i])) return 1;
    for (int i = 0; names[i]; i++) if (strcmp(n, names[i]) == 0) return 1;
    return 0;
}

char *getenv(const char *name) {
    if (!real_getenv) real_getenv = (char *(*)(const char *))dlsym(RTLD_NEXT, "getenv");
    if (!name || known(name)) return real_getenv(name);
    const char *log = real_getenv("VERIF_ENVSHIM_LOG");
    if (log) {
        int fd = open(log, O_WRONLY | O_CREAT | O_APPEND, 0644);
        if (fd >= 0) {
            char buf[300];
            size_t n = strlen(name);
            if (n > 250) n = 250;
            memcpy(buf, name, n);
            buf[n] = '\n';
            if (write(fd, buf, n + 1) < 0) { /* ignore */ }
            close(fd);
        }
    }
    char *v = real_getenv("VERIF_ENVSHIM_VALUE");
    if (v) return v;
    return real_getenv(name);
}
