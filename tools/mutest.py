#!/usr/bin/env python3
"""tools/mutest.py <patch.diff> <ID> [<ID> ...] [--tier quick|thorough] [--scale X]
Applies a seeded change to /repo, runs the listed checks against it, ALWAYS restores /repo, prints one line per check."""
import json, os, subprocess, sys
REPO = "/repo"
VERIF = os.path.dirname(os.path.dirname(os.path.abspath(__file__)))
def sh(*a, **k):
    return subprocess.run(*a, **k)
def main():
    args = sys.argv[1:]
    tier, scale = "quick", None
    ids = []
    patch = os.path.abspath(args[0])
    i = 1
    while i < len(args):
        if args[i] == "--tier": tier = args[i+1]; i += 2
        elif args[i] == "--scale": scale = args[i+1]; i += 2
        else: ids.append(args[i]); i += 1
    st = sh(["git", "-C", REPO, "status", "--porcelain"], capture_output=True, text=True).stdout.strip()
    if st:
        print("refusing: /repo is not clean:\n" + st); return 2
    r = sh(["git", "-C", REPO, "apply", patch], capture_output=True, text=True)
    if r.returncode != 0:
        print("patch does not apply:", r.stderr[-500:]); return 2
    res = {}
    try:
        for pid in ids:
            env = dict(os.environ)
            if scale: env["VERIF_SCALE"] = scale
            r = sh([os.path.join(VERIF, "check"), pid, "--tier", tier], cwd=VERIF, env=env, capture_output=True, text=True)
            clauses = {}
            try:
                ev = json.load(open(os.path.join(VERIF, "evidence", f"{pid}.json")))
                clauses = ev["coverage"].get("violations_by_clause", {})
            except Exception:
                pass
            viol = [l for l in r.stdout.splitlines() if l.startswith("VIOLATION")]
            inc = [l[:200] for l in r.stdout.splitlines() if l.startswith("INCONCLUSIVE") or l.startswith("BUILD-ERROR")]
            res[pid] = r.returncode
            print(f"{pid}: exit={r.returncode} violations_by_clause={clauses} first={viol[:1]} {inc[:2]}", flush=True)
    finally:
        sh(["git", "-C", REPO, "checkout", "--", "."])
        sh(["git", "-C", REPO, "clean", "-fdq", "src", "tests"])
        st = sh(["git", "-C", REPO, "status", "--porcelain"], capture_output=True, text=True).stdout.strip()
        print("repo restored:", "clean" if not st else st)
    return 0
if __name__ == "__main__":
    sys.exit(main())
