#!/bin/sh
# tools/runall.sh [tier] — runs every check once (or those in $IDS), prints "<ID> exit=<rc> wall=<s>" (silence checks on the unchanged tree)
cd "$(dirname "$0")/.."
T=${1:-quick}
IDS="${IDS:-C01 C02 C03 C04 C05 C06 C07 C08 C09 C10 C11 C12 C13 C14 C15 C16 C17 C18 C19 C20}"
for id in $IDS; do
  s=$(date +%s); ./check $id --tier $T > .build/runall.$id.log 2>&1; rc=$?; e=$(date +%s)
  echo "$id exit=$rc wall=$((e-s))s $(grep -c '^KNOWN-FINDING' .build/runall.$id.log) known-lines $(grep -E '^(VIOLATION|INCONCLUSIVE)' .build/runall.$id.log | head -2 | cut -c1-150)"
done
