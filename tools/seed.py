#!/usr/bin/env python3
"""tools/seed.py <ID> <mN> <check-ids comma separated> [--scale X]
Confirms a sub-agent's mutant in its scratch worktree (/tmp/mut/<ID>), stores it as /verif/seeded/<ID>-<mN>/,
runs the given checks against it (via tools/mutest.py) and records the outcome in meta.json."""
import json, os, shutil, subprocess, sys
V = os.path.dirname(os.path.dirname(os.path.abspath(__file__)))
pid, mn, ids = sys.argv[1], sys.argv[2], sys.argv[3].split(",")
extra = sys.argv[4:]
src = f"/tmp/mut/{pid}.out/{mn}"
wt = f"/tmp/mut/{pid}"
dst = os.path.join(V, "seeded", f"{pid}-{mn}")
r = subprocess.run([os.path.join(V, "tools", "confirm_mutant.sh"), wt, src], capture_output=True, text=True)
conf = r.stdout.strip().splitlines()
print("\n".join(conf))
ok = (len(conf) >= 3 and " 0 failed" in conf[0] and any(l.startswith("demo WITH patch") and "FAILED" in l for l in conf) and any(l.startswith("demo WITHOUT patch") and "ok." in l for l in conf))
os.makedirs(dst, exist_ok=True)
for f in os.listdir(src):
    if os.path.isfile(os.path.join(src, f)):
        shutil.copy(os.path.join(src, f), dst)
meta = {}
try:
    meta = json.load(open(os.path.join(dst, "meta.json")))
except Exception:
    pass
meta["confirmed_by_framework_author"] = {"worktree": wt, "commands": "tools/confirm_mutant.sh (git apply; cargo test --offline --workspace; cargo test --offline --test demo with and without the patch)", "output": conf, "confirmed": ok}
r = subprocess.run([os.path.join(V, "tools", "mutest.py"), os.path.join(dst, "patch.diff")] + ids + extra, capture_output=True, text=True, cwd=V)
out = [l for l in r.stdout.splitlines() if l[:3] in [i[:3] for i in ids] or l.startswith("repo restored") or "refusing" in l or "patch does not" in l]
print("\n".join(l[:400] for l in out))
meta["framework_result"] = {"checks_run": ids, "args": extra, "lines": [l[:600] for l in out], "detected": any("exit=1" in l for l in out)}
json.dump(meta, open(os.path.join(dst, "meta.json"), "w"), indent=1)
print("CONFIRMED" if ok else "NOT-CONFIRMED", "| DETECTED" if meta["framework_result"]["detected"] else "| MISSED")
