#!/usr/bin/env python3
"""prints a markdown table of seeded/*/meta.json (property, summary, needs, which checks caught it)"""
import json, glob, os, re
rows = []
for d in sorted(glob.glob(os.path.join(os.path.dirname(__file__), "..", "seeded", "*"))):
    try:
        m = json.load(open(os.path.join(d, "meta.json")))
    except Exception:
        continue
    fr = m.get("framework_result", {})
    caught = []
    for l in fr.get("lines", []):
        mm = re.match(r"(C\d+): exit=(\d+) violations_by_clause=(\{.*?\})", l)
        if mm:
            if mm.group(2) == "1":
                clauses = ", ".join(sorted(eval(mm.group(3)).keys())[:3])
                caught.append(f"{mm.group(1)} ({clauses})")
            else:
                caught.append(f"{mm.group(1)}: silent")
    s = (m.get("summary") or "").replace("|", "/")
    if len(s) > 150: s = s[:147] + "..."
    rows.append(f"| {os.path.basename(d)} | {s} | {'; '.join(caught)} |")
print("| seeded change | what it does | checks run against it -> outcome |\n|---|---|---|")
print("\n".join(rows))
